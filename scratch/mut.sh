#!/bin/bash
# mut.sh <file-in-repo> <python-replace-old> <python-replace-new> <govc -funcs regex>
# applies a one-line mutation, runs govc under a hard time limit, always restores the file.
f="$1"; old="$2"; new="$3"; re="$4"
cd /repo || exit 2
if [ -n "$(git status --porcelain)" ]; then echo "refusing: /repo has uncommitted changes"; exit 2; fi
trap 'git -C /repo checkout -- "$f"' EXIT
python3 - "$f" "$old" "$new" <<'PY'
import sys
p,old,new=sys.argv[1],sys.argv[2],sys.argv[3]
s=open(p).read()
assert old in s, "pattern not found"
open(p,'w').write(s.replace(old,new,1))
PY
[ $? -eq 0 ] || exit 2
timeout 400 /verif/bin/govc -funcs "$re" 2>&1 | tail -5 | cut -c1-230
