import json,sys
r=json.load(open(sys.argv[1]))
obs=[]
for f in r['functions']:
    for o in f['obligations']:
        o['_fn']=f['name']; obs.append(o)
obs=sorted(obs,key=lambda o:-o.get('time_s',0))
for o in obs[:int(sys.argv[2]) if len(sys.argv)>2 else 12]: print(o['name'],o['status'],o.get('solver'),round(o.get('time_s',0),1), o.get('detail','')[:150])
print("not discharged:",[o['name'] for o in obs if o['status'] not in('discharged','cover-ok')])
