#!/usr/bin/env python3
"""Regenerates MANIFEST.json from the table below (one place to keep claims honest)."""
import json, os, subprocess

HERE = os.path.dirname(os.path.abspath(__file__))
ids = [json.loads(l)["id"] for l in open(os.path.join(HERE, "properties.jsonl"))]

TECH = "contract-based deductive verification: govc weakest-precondition VCs over go/ssa of the real functions, discharged by z3 4.8.12 / z3 5.1.0 / cvc5 1.0.3"

# id -> (claim text, level note, design ref)
CLAIMS = {
 "C16": ("Proof: filter.New/Add/Contains/Build are verified against contracts transcribed from the statement: after Build(kvs) every hash function maps the user key of every entry to a set bit (member), Add is monotone, Contains returns exactly member and leaves the hashers reset; all loops carry inductive invariants, all indices are proved in range, for every input length and every byte content. The bitset size m >= 1 and hash count k >= 0 (floating point) are assumed (assume_after, listed in evidence).",
         "trusted: murmur3 via hash.Hash32 contracts (deterministic function of seed and bytes written since Reset), math.* opaque, m>=1/k>=0 of the float sizing formula assumed; govc itself", "4-C16"),
 "C10": ("Proof of the statement itself for levelManager.searchLowerBound (after two fix: commits): over all tables of all levels, it returns the entry of the target user key with the largest version not above the read timestamp that any table holds, and not-found when there is none - loop invariants over the level slice and the container/list of handles, for every number of tables, levels, entries and blocks (block size is symbolic: block boundaries are a ghost array). Carried by: Data.LowerBound (binary search, first entry >= key), Index.SearchLowerBound (first block whose EndKey >= key), fetchAndSearchLowerBound, filter.Contains (a member is never denied: C16), the byte-level versioned-key lemmas (keys containing '@'), and four pure lemmas of the table model (tbl_below, tbl_miss, tbl_hit_other, tbl_hit_same: what the two-level search finds in a sorted table cut into blocks).",
         "the ghost table model (entries of a file, block boundaries, index/filter agreement: lmOK) is a precondition here; that flush, compaction and recovery establish it is C09/C01/C02's business and not yet proved; fetch (file read + decode) is a trusted contract backed by C11; library contracts for container/list, strings, strconv, hash.Hash32; sequential semantics under levelManager.mu", "4-C10"),
 "C12": ("Proof of the lock discipline (after one fix: commit): every field of DB, memtable, levelManager, oracle and WAL carries a concurrency classification (guarded_by(lock) / immutable / atomic / lock), and every load and store of such a field in every function of the engine and wal packages - contracted or not - is an obligation: the guarding lock of that object is in the activation's ghost lockset in the right mode (read for loads, write for stores), or the object was allocated by this activation and is not shared yet. Reachability: an object that has no lock of its own (a container/list and its elements, a skiplist, a slice, a map) obtained from a guarded field may be used - called, indexed, dereferenced, ranged over - only while that field's lock is still held (taint from the guarded load through locals, conversions and results of calls on it). Also: no lock is taken twice by one activation, every Unlock matches a held lock, locks are balanced at exit, callees documented as 'call with lock' are called with it. An unclassified field of a shared type fails the run.",
         "decided: guarded-field discipline + lock balance, for all functions of package originium and wal, unbounded (no schedule executed). NOT decided by this check: panic freedom of the whole engine (covered per function in the other properties' obligations only where a function is under contract), pooled-buffer ownership (C11), and that the discipline implies data-race freedom (assumed: Go memory model DRF-SC; sync primitives correct). Txn objects are confined to one goroutine; struct values copied out of a protected object (tableHandle, filter) are not tracked. Uncontracted callees are abstracted by a static write-set analysis (dynamic calls assumed to store only through their arguments).", "4-C12"),
 "C11": ("Partial proof, parts named: (1) ownership, for all inputs: Data/Index/Footer/Meta.Encode and table.Build return a fresh allocation of the call, never a slice of a pooled buffer, and leave every buffer that was in the pool at entry with unchanged content (ghost BufOwned/BufC/BufStore; one fix: commit made this true). (2) Footer and Meta: Encode produces exactly the little-endian token string of the fields and Decode of exactly that string returns the fields; wrong magic and short input give an error and leave the receiver unchanged. (3) Data blocks, record by record: each iteration of Data.Encode appends exactly le16(lcp) le16(len(key)-lcp) key[lcp:] le16(len(value)) value le8(tombstone) le64(version) for the current entry (asserts after each of the seven writes), lcp being a common-prefix length of the key and the previous entry's key, and the result is the s2 compression of the concatenation; each iteration of Data.Decode, if the input at its start position holds that record of some entry (field by field, lengths below 65536), consumes exactly the record and appends an entry with that value, tombstone flag and version whose key is prevKey[:lcp] followed by the stored suffix - hence the original key when prevKey shares its first lcp bytes. (4) Index blocks: each iteration of Index.Encode appends exactly le16(len(StartKey)) StartKey le16(len(EndKey)) EndKey le64(Offset) le64(Length) after the two-field header. (5) 16-bit length fields: every narrowing conversion in Data.Encode and Index.Encode is an obligation; those for lengths >= 65536 fail and are listed known findings (D11, demonstrated in findings/table/zz_d11_test.go). (6) ErrorWriter.Write / ErrorReader.Read glue, utils.LCP (longest common prefix, for all strings).",
         "NOT decided: the induction from 'record by record' to 'the whole block' (the chain over all entries is not restated as one quantified postcondition), Index.Decode (interior pointers passed through an interface: outside the modelled subset), the layout of a whole table file in table.Build beyond ownership, wal.Write/Read and the thrift record codec (trusted), s2 compression (utils.Compress/Decompress trusted as inverse functions). Data.Decode's slice-bound obligations are not claimed (thin contract): on bytes not produced by Data.Encode it can panic. 'Whatever other goroutines encode concurrently' is decided as ownership: the result is unreachable from the pool (sync.Pool trusted).", "4-C11"),
 "C07": ("Proof at the level of fingerprints: hasConflict returns true exactly when a remembered committed transaction with ts > readTs wrote a read fingerprint (nested-loop invariants); cleanUpCommittedTxns keeps exactly the entries above the new mark (in-place filter with aliasing slices); newCommitTs refuses exactly when the ghost commit history Hist contains such a transaction (oracle invariant orcInv/histInv: nothing above the clean-up mark is forgotten, the mark never exceeds an open reader); Get records a fingerprint only for store reads; Commit returns ErrConflictTxn iff that holds and then changes neither View nor Hist; read-only / write-only transactions cannot conflict (empty readsFp).",
         "sequential semantics of each critical section (oracle lock held); watermark client contracts trusted (justified by C13); utils.Hash as an uninterpreted deterministic function: the key-level statement equals the fingerprint-level one when no two keys in play collide; DB.search/rawset used through their contracts; fewer than 2^63 commits", "4-C07"),
 "C08": ("Proof: modify/Set/Delete return the documented error in exactly the documented cases and then change nothing; otherwise they only touch the private buffer (frame conditions proved: assigns map pendingWrites, map writesFp). Discard only sets flags and finishes the read mark. Commit on a discarded transaction returns ErrDiscardedTxn, on conflict ErrConflictTxn, in both cases with View and Hist unchanged. View/Update return ErrDBClosed when closed, Update returns the closure's error without calling Commit and with View unchanged.",
         "user closure modelled as arbitrary Txn API calls without Commit (trusted contract dyn:TxnFunc); State() is an atomic load (trusted); 'after flushes, compactions and restarts' follows only through C01/C02/C09 (everything later is a function of View); sequential semantics per call", "4-C08"),
}

def main():
    man_path = os.path.join(HERE, "MANIFEST.json")
    old = json.load(open(man_path)) if os.path.exists(man_path) else {}
    na_reasons = {e["property_id"]: e["reason"] for e in old.get("not_applicable", [])}
    extra_na = {}
    p = os.path.join(HERE, "not_applicable.json")
    if os.path.exists(p):
        extra_na = json.load(open(p))
    src_commits = []
    try:
        out = subprocess.run(["git", "-C", "/repo", "log", "--format=%H %s"], capture_output=True, text=True).stdout
        for l in out.splitlines():
            h, s = l.split(" ", 1)
            if s.startswith("verif:"):
                src_commits.append(h)
    except Exception:
        pass
    checks = []
    for i in ids:
        if i not in CLAIMS:
            continue
        text, note, ref = CLAIMS[i]
        checks.append({
            "property_id": i,
            "quick_cmd": f"./check {i} quick",
            "thorough_cmd": f"./check {i} thorough",
            "evidence_file": f"/verif/evidence/{i}.json",
            "replay_cmd_template": f"./check {i} --replay {{path}}",
            "engine": "govc",
            "level_claimed": {"category": "proof", "text": text, "design_ref": "DESIGN.md section " + ref},
            "level_note": note,
            "technique": TECH,
        })
    na = []
    for i in ids:
        if i in CLAIMS:
            continue
        na.append({"property_id": i, "reason": extra_na.get(i, "contracts for this property are not complete yet (work in progress; DESIGN.md section 8); not claimed until every obligation discharges or is a listed known finding")})
    m = {
        "version": 1,
        "setup_cmd": "./setup.sh",
        "hooks": {"guard": "verif", "enable": "go/packages load with -tags=verif; the hook is comment-only contract files zz_contracts_verif.go (//go:build verif) read by govc",
                  "baseline_off_cmd": "cd /repo && export GOFLAGS=-mod=mod GOPROXY=off GOTOOLCHAIN=local PATH=/root/go/pkg/mod/golang.org/toolchain@v0.0.1-go1.24.0.linux-amd64/bin:$PATH && go test -vet=off -count=1 ./...",
                  "source_commits": src_commits, "add_only": True},
        "engines": [{"name": "govc", "path": "/verif/govc", "serves_properties": sorted(CLAIMS),
                     "kind_free_text": "own verification-condition generator: go/ssa (NaiveForm) of /repo's working tree -> per-function obligations (pre/post, loop invariants, frames, bounds/nil/div safety, lemma and vacuity checks) -> SMT-LIB -> z3 4.8.12, z3 5.1.0, cvc5 1.0.3"}],
        "checks": checks,
        "not_applicable": na,
        "notes": "All checks use one technique (contract-based deductive verification). Known findings: /verif/known_findings.json. Replays under /verif/replays (ignored by git).",
    }
    json.dump(m, open(man_path, "w"), indent=1)
    print("MANIFEST.json:", len(checks), "checks,", len(na), "not applicable")

if __name__ == "__main__":
    main()
