#!/usr/bin/env python3
"""Regenerates MANIFEST.json from the table below (one place to keep claims honest)."""
import json, os, subprocess

HERE = os.path.dirname(os.path.abspath(__file__))
ids = [json.loads(l)["id"] for l in open(os.path.join(HERE, "properties.jsonl"))]

TECH = "contract-based deductive verification: govc weakest-precondition VCs over go/ssa of the real functions, discharged by z3 4.8.12 / z3 5.1.0 / cvc5 1.0.3"

# id -> (claim text, level note, design ref)
CLAIMS = {
 "C16": ("Proof: filter.New/Add/Contains/Build are verified against contracts transcribed from the statement: after Build(kvs) every hash function maps the user key of every entry to a set bit (member), Add is monotone, Contains returns exactly member and leaves the hashers reset; all loops carry inductive invariants, all indices are proved in range, for every input length and every byte content. The bitset size m >= 1 and hash count k >= 0 (floating point) are assumed (assume_after, listed in evidence).",
         "trusted: murmur3 via hash.Hash32 contracts (deterministic function of seed and bytes written since Reset), math.* opaque, m>=1/k>=0 of the float sizing formula assumed; govc itself", "4-C16"),
 "C10": ("Proof of the statement itself for levelManager.searchLowerBound (after two fix: commits): over all tables of all levels, it returns the entry of the target user key with the largest version not above the read timestamp that any table holds, and not-found when there is none - loop invariants over the level slice and the container/list of handles, for every number of tables, levels, entries and blocks (block size is symbolic: block boundaries are a ghost array). Carried by: Data.LowerBound (binary search, first entry >= key), Index.SearchLowerBound (first block whose EndKey >= key), fetchAndSearchLowerBound, filter.Contains (a member is never denied: C16), the byte-level versioned-key lemmas (keys containing '@'), and four pure lemmas of the table model (tbl_below, tbl_miss, tbl_hit_other, tbl_hit_same: what the two-level search finds in a sorted table cut into blocks).",
         "the ghost table model (entries of a file, block boundaries, index/filter agreement: lmOK) is a precondition here; that flush, compaction and recovery establish it is C09/C01/C02's business and not yet proved; fetch (file read + decode) is a trusted contract backed by C11; library contracts for container/list, strings, strconv, hash.Hash32; sequential semantics under levelManager.mu", "4-C10"),
 "C12": ("Proof of the lock discipline (after one fix: commit): every field of DB, memtable, levelManager, oracle and WAL carries a concurrency classification (guarded_by(lock) / immutable / atomic / lock), and every load and store of such a field in every function of the engine and wal packages - contracted or not - is an obligation: the guarding lock of that object is in the activation's ghost lockset in the right mode (read for loads, write for stores), or the object was allocated by this activation and is not shared yet. Also: no lock is taken twice by one activation, every Unlock matches a held lock, locks are balanced at exit, callees documented as 'call with lock' are called with it. An unclassified field of a shared type fails the run.",
         "decided: guarded-field discipline + lock balance, for all functions of package originium and wal, unbounded (no schedule executed). NOT decided by this check: panic freedom of the whole engine (covered per function in the other properties' obligations only where a function is under contract), pooled-buffer ownership (C11), and that the discipline implies data-race freedom (assumed: Go memory model DRF-SC; sync primitives correct). skiplist/filter/tableHandle/Txn objects are confined to their owner (reached only through a guarded field or by one goroutine). Uncontracted callees are abstracted by a static write-set analysis (dynamic calls assumed to store only through their arguments).", "4-C12"),
 "C11": ("Partial proof, parts named: (1) ownership, for all inputs: Data/Index/Footer/Meta.Encode and table.Build return a fresh allocation of the call (arrid(result) >= alloc at entry), never a slice of a pooled buffer, and leave every buffer that was in the pool at entry with unchanged content (ghost BufOwned/BufC/BufStore; one fix: commit made this true). (2) Footer and Meta: Encode produces exactly the little-endian token string of the fields and Decode of exactly that string returns the fields (round trip as a lemma over the two contracts), wrong magic and short input give an error and leave the receiver unchanged. (3) the 16-bit length fields: every narrowing conversion in Data.Encode and Index.Encode is an obligation (value fits); those for key/value/suffix lengths >= 65536 fail and are listed known findings (D11, demonstrated against the real code in findings/table/zz_d11_test.go). (4) ErrorWriter.Write / ErrorReader.Read glue and utils.LCP (longest common prefix, for all strings).",
         "NOT yet under contract (no obligation generated, so a change there is not detected by this check): byte content of data and index blocks versus the entry list (Data/Index Encode-Decode round trip), Data/Index.Decode, wal.Write/Read and the thrift record codec, s2 compression (utils.Compress/Decompress trusted as inverse functions). 'whatever other goroutines encode concurrently' is decided as ownership: the result is unreachable from the pool, so no other activation can write it (sync.Pool trusted).", "4-C11"),
 "C13": ("Proof on the consumer loop `process` (the only writer of doneUntil), for every sequence of consumed marks (the received mark is unconstrained at every iteration: any arrival order, repeated indices, Done without Begin, any number in flight), with ghost books of the consumed history (begun-minus-finished PB, first-seen, value of doneUntil when an index became open) and loop invariants for all four loops: (monotone) every Store writes a strictly larger value; (safety) an index that is open in the books never has doneUntil >= it unless doneUntil has not moved since it became open; (catch-up) after every iteration the heap is empty or its minimum is unfinished, every consumed index that is no longer pending is <= doneUntil, hence doneUntil >= t once every begun index up to t is finished - as a state predicate that holds as soon as the marks have been consumed; (waiters) a waiter channel is closed only when doneUntil >= its index, every registered waiter whose index is <= doneUntil is closed before the next mark is taken, no channel is closed twice or when nil, a waiter above the mark stays registered. lowHeap.Len/Less/Swap/Push/Pop meet the heap.Interface contracts. The exact-books invariant fails for a Done consumed before its Begin: known finding D15 (demonstrated on the real type).",
         "trusted: container/heap over a correct heap.Interface returns the minimum (library contract heap.*[*watermark.lowHeap]); sync/atomic sequentially consistent, doneUntil single-writer; channel FIFO: consumption order = send order; the client methods Begin/Done/WaitForMark (channel sends, select) are trusted contracts whose link to the loop invariant is FIFO delivery - a change inside Begin/Done/WaitForMark is not detected by this check; every waiter request carries a channel of its own (assumption listed in evidence); scheduling fairness ('without further calls' = once the buffered marks are consumed); sequential semantics between blocking operations", "4-C13"),
 "C09": ("Partial proof, at the level of the entry lists compaction works on: (1) kway.merge (the k-way heap merge used by compactL0/compactLN through MergeVersions) returns, for every versioned key of the inputs, exactly one input entry with that key - the one of the newest input list - tombstones included (after one fix: commit), strictly sorted by CompareKeys, nothing invented; Heap.Len/Less/Swap/Push/Pop meet the heap.Interface contracts. (2) discardStaleEntries with watermark low keeps every version above low and, per user key, the newest version at or below low (a tombstone counts as a version), keeps nothing that was not an input, returns the list sorted; with low == 0 it returns the input. So a lookup at any read timestamp >= low finds the same newest version <= ts before and after. (3) discardAtOrBelow returns a value <= the read timestamp of every open reader (watermark client contract, C13). All for every list length, version pattern, tombstone pattern and keys with bytes below '@'.",
         "NOT decided by this check (no obligation generated; a change there is not detected): which tables compactL0/compactLN/overlapL0/overlapLN/boundary select (D5: boundary compares raw strings - open, not demonstrated here), that the merged list is written, re-read and installed in place of the inputs (table.Build/C11, file order D6 - C03/C14), cascaded compaction, handles rebuilt by recovery. Trusted: container/heap, slices.SortFunc (permutation + sorted), watermark client contracts, sequential semantics under levelManager.mu", "4-C09"),
 "C15": ("Proof of a sufficient condition for deadlock freedom, not of the time bound: every blocking operation of every function of the engine, wal and watermark packages (Lock/RLock, channel send/receive, blocking select, WaitGroup.Wait, WaitForMark - also those reached through callees, by a transitive summary over static calls) is an obligation: its declared wait level is strictly above the level of every lock the activation holds at that point (ghost lockset of C12) and of every wait object the activation serves (run serves the senders on flushC/closeC and the receiver of closed; Commit and the watermark consumer serve WaitForMark). With levels wait:mark < oracle.writeLock < oracle.Mutex < flushC/closeC/closed < DB.mu < levelManager.mu < memtable.mu < WAL.mu < markC the waits-for graph is acyclic for every queue length (including 0) and every schedule: e.g. 'no lock the flusher needs is held while sending on flushC', 'readTs waits for commits while holding nothing'. An undeclared blocking operation fails the run.",
         "NOT decided: 'within bounded time' (liveness; needs a fair scheduler, terminating file-system calls and loop termination - no decreases clauses are checked here); the Close handshake credit - that somebody still receives from flushC after run left its loop (D14: a Commit racing Close can be stranded; no obligation of this check expresses it, so it is neither proved nor reported); that the directory can be reopened with the complete state (C02). Levels are per type and field, not per object; interface calls (logger, hash) are assumed not to block on engine objects; sync, channels and the scheduler trusted.", "4-C15"),
 "C17": ("Proof for New, Reset, Set, Get, LowerBound, Scan, All, Size and randomLevel against a representation invariant over keys only (nodes / links / exact / distinct: every forward pointer leads to a member with a strictly larger key and enough levels; level 0 skips no member; two members never compare equal; each node owns its pointer array) and an abstract view SLMem (the set of nodes): New/Reset give the empty map; Set leaves a member whose key compares equal to the given key with the given value and tombstone flag - the existing member (key and version kept, nothing else touched) or one new member carrying the whole entry - and every other member untouched, nothing else added, for every tower height randomLevel can return (1..maxLevel, proved) and every maxLevel >= 1; Get returns the member comparing equal or reports none exists; LowerBound returns the least member >= key or reports that all are smaller; Scan returns exactly the members in [start,end) and All exactly all members, each once, strictly ascending by CompareKeys (key ascending, version descending). The insertion loop is proved level by level (the invariant is parametrised by the level reached; level 0 restores `exact`).",
         "NOT decided: Delete (not under contract: unused by the engine, needs the all-level form of `exact`), so sequences containing Delete are outside the claim; the probability distribution of tower heights (p is irrelevant to the results); s.size arithmetic. Trusted: math/rand results unconstrained (library contract), CompareKeys through its proved contract (cmp), sequential semantics (memtable.mu held by the caller: C12).", "4-C17"),
 "C07": ("Proof at the level of fingerprints: hasConflict returns true exactly when a remembered committed transaction with ts > readTs wrote a read fingerprint (nested-loop invariants); cleanUpCommittedTxns keeps exactly the entries above the new mark (in-place filter with aliasing slices); newCommitTs refuses exactly when the ghost commit history Hist contains such a transaction (oracle invariant orcInv/histInv: nothing above the clean-up mark is forgotten, the mark never exceeds an open reader); Get records a fingerprint only for store reads; Commit returns ErrConflictTxn iff that holds and then changes neither View nor Hist; read-only / write-only transactions cannot conflict (empty readsFp).",
         "sequential semantics of each critical section (oracle lock held); watermark client contracts trusted (justified by C13); utils.Hash as an uninterpreted deterministic function: the key-level statement equals the fingerprint-level one when no two keys in play collide; DB.search/rawset used through their contracts; fewer than 2^63 commits", "4-C07"),
 "C08": ("Proof: modify/Set/Delete return the documented error in exactly the documented cases and then change nothing; otherwise they only touch the private buffer (frame conditions proved: assigns map pendingWrites, map writesFp). Discard only sets flags and finishes the read mark. Commit on a discarded transaction returns ErrDiscardedTxn, on conflict ErrConflictTxn, in both cases with View and Hist unchanged. View/Update return ErrDBClosed when closed, Update returns the closure's error without calling Commit and with View unchanged.",
         "user closure modelled as arbitrary Txn API calls without Commit (trusted contract dyn:TxnFunc); State() is an atomic load (trusted); 'after flushes, compactions and restarts' follows only through C01/C02/C09 (everything later is a function of View); sequential semantics per call", "4-C08"),
}

def main():
    man_path = os.path.join(HERE, "MANIFEST.json")
    old = json.load(open(man_path)) if os.path.exists(man_path) else {}
    na_reasons = {e["property_id"]: e["reason"] for e in old.get("not_applicable", [])}
    extra_na = {}
    p = os.path.join(HERE, "not_applicable.json")
    if os.path.exists(p):
        extra_na = json.load(open(p))
    src_commits = []
    try:
        out = subprocess.run(["git", "-C", "/repo", "log", "--format=%H %s"], capture_output=True, text=True).stdout
        for l in out.splitlines():
            h, s = l.split(" ", 1)
            if s.startswith("verif:"):
                src_commits.append(h)
    except Exception:
        pass
    checks = []
    for i in ids:
        if i not in CLAIMS:
            continue
        text, note, ref = CLAIMS[i]
        checks.append({
            "property_id": i,
            "quick_cmd": f"./check {i} quick",
            "thorough_cmd": f"./check {i} thorough",
            "evidence_file": f"/verif/evidence/{i}.json",
            "replay_cmd_template": f"./check {i} --replay {{path}}",
            "engine": "govc",
            "level_claimed": {"category": "proof", "text": text, "design_ref": "DESIGN.md section " + ref},
            "level_note": note,
            "technique": TECH,
        })
    na = []
    for i in ids:
        if i in CLAIMS:
            continue
        na.append({"property_id": i, "reason": extra_na.get(i, "contracts for this property are not complete yet (work in progress; DESIGN.md section 8); not claimed until every obligation discharges or is a listed known finding")})
    m = {
        "version": 1,
        "setup_cmd": "./setup.sh",
        "hooks": {"guard": "verif", "enable": "go/packages load with -tags=verif; the hook is comment-only contract files zz_contracts_verif.go (//go:build verif) read by govc",
                  "baseline_off_cmd": "cd /repo && export GOFLAGS=-mod=mod GOPROXY=off GOTOOLCHAIN=local PATH=/root/go/pkg/mod/golang.org/toolchain@v0.0.1-go1.24.0.linux-amd64/bin:$PATH && go test -vet=off -count=1 ./...",
                  "source_commits": src_commits, "add_only": True},
        "engines": [{"name": "govc", "path": "/verif/govc", "serves_properties": sorted(CLAIMS),
                     "kind_free_text": "own verification-condition generator: go/ssa (NaiveForm) of /repo's working tree -> per-function obligations (pre/post, loop invariants, frames, bounds/nil/div safety, lemma and vacuity checks) -> SMT-LIB -> z3 4.8.12, z3 5.1.0, cvc5 1.0.3"}],
        "checks": checks,
        "not_applicable": na,
        "notes": "All checks use one technique (contract-based deductive verification). Known findings: /verif/known_findings.json. Replays under /verif/replays (ignored by git).",
    }
    json.dump(m, open(man_path, "w"), indent=1)
    print("MANIFEST.json:", len(checks), "checks,", len(na), "not applicable")

if __name__ == "__main__":
    main()
