# sourced by every script: offline Go 1.24 toolchain from the module cache
export GOFLAGS=-mod=mod GOPROXY=off GOSUMDB=off GOTOOLCHAIN=local
export PATH=/root/go/pkg/mod/golang.org/toolchain@v0.0.1-go1.24.0.linux-amd64/bin:$PATH
