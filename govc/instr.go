package main

import (
	"os"
	"fmt"
	"go/token"
	"go/types"
	"strings"

	"golang.org/x/tools/go/ssa"
)

// execInstr executes one instruction; returns false when the block ends here (terminator).
func (fc *FnCtx) execInstr(fr *frame, st *State, in ssa.Instruction, b *ssa.BasicBlock, incoming map[*ssa.BasicBlock][]inEdge) bool {
	switch x := in.(type) {
	case *ssa.DebugRef:
		return true
	case *ssa.Alloc:
		fc.execAlloc(st, x)
	case *ssa.Store:
		fc.execStore(st, x)
	case *ssa.UnOp:
		fc.regs[x] = fc.execUnOp(st, x)
	case *ssa.BinOp:
		fc.regs[x] = fc.execBinOp(st, x.Op, fc.val(x.X), fc.val(x.Y), x.Type(), x.Pos())
	case *ssa.FieldAddr:
		p := fc.val(x.X)
		fc.nonNil(st, p, x.Pos(), "field address")
		owner := x.X.Type().Underlying().(*types.Pointer).Elem()
		fty := owner.Underlying().(*types.Struct).Field(x.Field).Type()
		var a *Addr
		if p.Addr != nil {
			a = &Addr{}
			*a = *p.Addr
			a.Path = append(append([]pathStep(nil), p.Addr.Path...), pathStep{owner, x.Field})
			a.Ty = fty
		} else {
			a = &Addr{Kind: aField, Owner: owner, Field: x.Field, Ref: p.T, Ty: fty}
		}
		fc.regs[x] = Val{Addr: a, Ty: x.Type(), Sort: sortInt}
	case *ssa.Field:
		v := fc.val(x.X)
		info := fc.sorts.structInfoOf(x.X.Type())
		fc.regs[x] = fc.mkVal(app(info.fields[x.Field], v.T), x.Type())
	case *ssa.IndexAddr:
		fc.execIndexAddr(st, x)
	case *ssa.Index:
		// array value or string index
		v, i := fc.val(x.X), fc.val(x.Index)
		if _, ok := x.X.Type().Underlying().(*types.Array); ok {
			fc.regs[x] = fc.mkVal(app("select", v.T, i.T), x.Type())
		} else {
			fc.oblige(st, "bounds", and(app("<=", "0", i.T), app("<", i.T, app("slen", v.T))), x.Pos(), "string index in range")
			fc.regs[x] = fc.mkVal(app("sat", v.T, i.T), x.Type())
		}
	case *ssa.Lookup:
		fc.execLookup(st, x)
	case *ssa.MapUpdate:
		fc.execMapUpdate(st, x)
	case *ssa.Slice:
		fc.execSlice(st, x)
	case *ssa.MakeSlice:
		ln, cp := fc.val(x.Len), fc.val(x.Cap)
		fc.oblige(st, "makeslice", and(app("<=", "0", ln.T), app("<=", ln.T, cp.T)), x.Pos(), "make([]T, len, cap): 0 <= len <= cap")
		et := x.Type().Underlying().(*types.Slice).Elem()
		arr := fc.newRef(st)
		fc.setArr(st, et, arr, fc.sorts.ZeroArr(et))
		fc.regs[x] = fc.mkVal(app("mk_slice", arr, "0", ln.T, cp.T), x.Type())
	case *ssa.MakeMap:
		m := x.Type().Underlying().(*types.Map)
		r := fc.newRef(st)
		d, _, l := fc.mapKeys(m)
		emptyDom := fmt.Sprintf("((as const (Array %s Bool)) false)", fc.sorts.SortOf(m.Key()))
		st.heap[d] = fc.sc.Define(fc.hv[d].name, fc.hv[d].sort, app("store", fc.heapGet(st, d), r, emptyDom))
		st.heap[l] = fc.sc.Define(fc.hv[l].name, fc.hv[l].sort, app("store", fc.heapGet(st, l), r, "0"))
		fc.regs[x] = fc.mkVal(r, x.Type())
	case *ssa.MakeChan:
		sz := fc.val(x.Size)
		fc.oblige(st, "makechan", app("<=", "0", sz.T), x.Pos(), "make(chan, n): n >= 0")
		r := fc.newRef(st)
		fc.assume(st, fc.sorts.TypeInv(x.Type(), r, ""))
		if fc.eng.ghosts["ChClosed"] != nil && !fc.eng.lockMode {
			fc.assume(st, not(app("select", fc.heapGet(st, fc.ghostKey("ChClosed")), r)))
		}
		fc.regs[x] = fc.mkVal(r, x.Type())
	case *ssa.MakeInterface:
		v := fc.val(x.X)
		if v.Addr != nil {
			t, ok := fc.ptrTerm(st, v)
			if !ok {
				// interior pointer boxed into an interface: keep the static address (used by library contracts)
				fc.regs[x] = Val{T: fc.sc.Fresh("ifaceaddr", sortIface), Sort: sortIface, Ty: x.Type(), Addr: v.Addr}
				return true
			}
			v.T = t
		}
		if v.Clo != nil {
			fc.regs[x] = Val{T: fc.sc.Fresh("ifaceclo", sortIface), Sort: sortIface, Ty: x.Type(), Clo: v.Clo}
			return true
		}
		r := fc.mkVal(fc.sorts.Box(x.X.Type(), v.T), x.Type())
		r.Addr = nil
		fc.regs[x] = r
	case *ssa.ChangeInterface:
		v := fc.val(x.X)
		v.Ty = x.Type()
		fc.regs[x] = v
	case *ssa.ChangeType:
		v := fc.val(x.X)
		v.Ty = x.Type()
		fc.regs[x] = v
	case *ssa.Convert:
		fc.regs[x] = fc.execConvert(st, x)
	case *ssa.TypeAssert:
		fc.execTypeAssert(st, x)
	case *ssa.Extract:
		t := fc.val(x.Tuple)
		if x.Index < len(t.Tuple) {
			fc.regs[x] = t.Tuple[x.Index]
		} else {
			fc.errorf("extract from non-tuple at %s", fc.eng.pos(x.Pos()))
			fc.regs[x] = fc.fresh(st, "ext", x.Type())
		}
	case *ssa.Phi:
		return true
	case *ssa.MakeClosure:
		var bs []Val
		for _, bnd := range x.Bindings {
			bs = append(bs, fc.val(bnd))
		}
		fc.regs[x] = Val{Clo: &closure{fn: x.Fn.(*ssa.Function), bindings: bs}, Ty: x.Type(), Sort: sortInt, T: "0"}
	case *ssa.Range:
		k := fc.iterKey(x)
		ks := sortStr
		if m, ok := x.X.Type().Underlying().(*types.Map); ok {
			ks = fc.sorts.SortOf(m.Key())
		} else {
			fc.errorf("range over %v not supported", x.X.Type())
		}
		st.heap[k] = fmt.Sprintf("((as const (Array %s Bool)) false)", ks)
		fc.regs[x] = Val{Iter: x, Ty: x.Type(), T: fc.val(x.X).T}
	case *ssa.Next:
		fc.execNext(st, x)
	case *ssa.Call:
		res, ok := fc.execCall(fr, st, x.Common(), x, x.Pos())
		if !ok {
			return false
		}
		fc.regs[x] = res
	case *ssa.Defer:
		d := &deferred{call: x.Common(), pos: x.Pos()}
		for _, a := range x.Call.Args {
			d.args = append(d.args, fc.val(a))
		}
		d.fnv = fc.val(x.Call.Value)
		st.defers = append(st.defers, d)
	case *ssa.RunDefers:
		ds := st.defers
		st.defers = nil
		for i := len(ds) - 1; i >= 0; i-- {
			d := ds[i]
			_, ok := fc.execCallWith(fr, st, d.call, d.fnv, d.args, nil, d.pos)
			if !ok {
				return false
			}
		}
	case *ssa.Go:
		fc.execGo(fr, st, x)
	case *ssa.Send:
		fc.execSend(fr, st, x)
	case *ssa.Select:
		fc.execSelect(fr, st, x)
	case *ssa.Panic:
		fc.oblige(st, "panic", "false", x.Pos(), "explicit panic is unreachable")
		return false
	case *ssa.Jump:
		fc.sendTo(fr, st, b, b.Succs[0], incoming)
		return false
	case *ssa.If:
		c := fc.val(x.Cond)
		ct := fc.sc.Define("c", "Bool", c.T)
		s1 := st.clone()
		s1.pc = fc.sc.Define("pc", "Bool", and(st.pc, ct))
		s2 := st
		s2.pc = fc.sc.Define("pc", "Bool", and(st.pc, not(ct)))
		fc.sendTo(fr, s1, b, b.Succs[0], incoming)
		fc.sendTo(fr, s2, b, b.Succs[1], incoming)
		return false
	case *ssa.Return:
		var rs []Val
		for _, r := range x.Results {
			rs = append(rs, fc.val(r))
		}
		fr.rets = append(fr.rets, retInfo{st, rs})
		return false
	default:
		fc.errorf("unsupported instruction %T at %s", in, fc.eng.pos(in.Pos()))
	}
	return true
}

func (fc *FnCtx) ptrTerm(st *State, v Val) (string, bool) {
	if v.Addr == nil {
		return v.T, true
	}
	a := v.Addr
	if len(a.Path) == 0 && a.Kind == aBox {
		return a.Ref, true
	}
	return "", false
}

func (fc *FnCtx) execAlloc(st *State, x *ssa.Alloc) {
	el := x.Type().(*types.Pointer).Elem()
	if !x.Heap {
		st.locals[x] = fc.sorts.Zero(el)
		fc.regs[x] = Val{Addr: &Addr{Kind: aLocal, Alloc: x, Elem: el, Ty: el}, Ty: x.Type(), Sort: sortInt}
		return
	}
	switch u := el.Underlying().(type) {
	case *types.Struct:
		r := fc.newRef(st)
		fc.storeStructObj(st, r, el, fc.sorts.Zero(el))
		fc.regs[x] = fc.mkVal(r, x.Type())
	case *types.Array:
		arr := fc.newRef(st)
		fc.setArr(st, u.Elem(), arr, fc.sorts.ZeroArr(u.Elem()))
		// pointer to array: represented by the array id
		v := fc.mkVal(arr, x.Type())
		fc.regs[x] = v
	default:
		r := fc.newRef(st)
		// a boxed local (captured by a closure, or its address taken): callees cannot reach it
		// unless the address is passed to them
		if fc.localBoxes == nil {
			fc.localBoxes = map[string][]string{}
		}
		bk := fc.boxKey(el)
		fc.localBoxes[bk] = append(fc.localBoxes[bk], r)
		fc.rootStore(st, &Addr{Kind: aBox, Elem: el, Ref: r}, fc.sorts.Zero(el))
		fc.regs[x] = Val{T: r, Sort: sortInt, Ty: x.Type(), Addr: &Addr{Kind: aBox, Elem: el, Ref: r, Ty: el}}
	}
}

func (fc *FnCtx) execStore(st *State, x *ssa.Store) {
	p := fc.val(x.Addr)
	v := fc.val(x.Val)
	if v.Clo != nil && v.Addr == nil {
		// function values are not tracked through memory
		fc.note("function value stored to memory in %s (not tracked)", fc.curFn)
	}
	vt := v.T
	if v.Addr != nil {
		t, ok := fc.ptrTerm(st, v)
		if !ok {
			fc.errorf("interior pointer stored to memory at %s", fc.eng.pos(x.Pos()))
			t = "0"
		}
		vt = t
	}
	a := p.Addr
	if a == nil {
		fc.nonNil(st, p, x.Pos(), "store through pointer")
		el := x.Addr.Type().Underlying().(*types.Pointer).Elem()
		if _, ok := el.Underlying().(*types.Struct); ok {
			fc.frameCheckObj(st, p.T, el, x.Pos())
			fc.storeStructObj(st, p.T, el, vt)
			return
		}
		a = &Addr{Kind: aBox, Elem: el, Ref: p.T, Ty: el}
	}
	fc.guardCheck(st, a, true, x.Pos())
	fc.store(st, a, vt)
	fc.assumeAfter(st, a)
	// `after_assign assign NAME: ghost X = E | assert E | ...`: ghost bookkeeping attached to the
	// assignment of a local (e.g. the consumption of a received message), not to the code that follows
	if a.Kind == aLocal && len(a.Path) == 0 {
		fc.pointClausesV(st, "after_assign", "assign "+a.Alloc.Comment, x.Pos(), nil)
	}
}

// assumeAfter applies `assume_after <local>: E` clauses: a labelled, unproved fact about a local,
// taken as given right after the local is assigned (bounded stand-ins; always listed in the evidence).
func (fc *FnCtx) assumeAfter(st *State, a *Addr) {
	if a.Kind != aLocal || len(a.Path) != 0 {
		return
	}
	con := fc.eng.contracts[fc.eng.fnName(fc.curFn)]
	if con == nil {
		return
	}
	for _, c := range con.Extra["assume_after"] {
		i := strings.Index(c.Text, ":")
		if i < 0 || strings.TrimSpace(c.Text[:i]) != a.Alloc.Comment {
			continue
		}
		ex, err := parseSpecExpr(c.Text[i+1:])
		if err != nil {
			fc.errorf("assume_after: %v", err)
			continue
		}
		env := &specEnv{fc: fc, st: st, old: fc.entry, vars: map[string]Val{}, entry: fc.params, localFn: fc.curFn, at: a.Alloc.Block()}
		if fc.curFn.Pkg != nil {
			env.pkg = fc.curFn.Pkg.Pkg
		}
		env.at = nil
		fc.assume(st, fc.evalBool(env, &Clause{Text: c.Text[i+1:], Expr: ex, Pos: c.Pos}))
		fc.note("ASSUMED (not proved) after assignment of %s: %s", a.Alloc.Comment, strings.TrimSpace(c.Text[i+1:]))
	}
}

func (fc *FnCtx) frameCheckObj(st *State, ref string, ty types.Type, pos token.Pos) {}

func (fc *FnCtx) execUnOp(st *State, x *ssa.UnOp) Val {
	v := fc.val(x.X)
	switch x.Op {
	case token.MUL: // load
		if v.Addr != nil {
			fc.guardCheck(st, v.Addr, false, x.Pos())
			return fc.load(st, v.Addr)
		}
		fc.nonNil(st, v, x.Pos(), "load through pointer")
		el := x.X.Type().Underlying().(*types.Pointer).Elem()
		if _, ok := el.Underlying().(*types.Struct); ok {
			return fc.mkVal(fc.sc.Define("obj", fc.sorts.SortOf(el), fc.loadStructObj(st, v.T, el)), el)
		}
		if arr, ok := el.Underlying().(*types.Array); ok {
			return fc.mkVal(app("select", fc.heapGet(st, fc.elemKey(arr.Elem())), v.T), el)
		}
		a := &Addr{Kind: aBox, Elem: el, Ref: v.T, Ty: el}
		return fc.load(st, a)
	case token.NOT:
		return fc.mkVal(not(v.T), x.Type())
	case token.SUB:
		if v.Sort == sortFloat {
			return fc.mkVal(app("float_neg", v.T), x.Type())
		}
		return fc.wrap(app("-", v.T), x.Type())
	case token.ARROW:
		return fc.execRecv(st, x, v)
	case token.XOR:
		return fc.wrap(app("bitnot", v.T), x.Type())
	}
	fc.errorf("unsupported unop %v", x.Op)
	return fc.fresh(st, "unop", x.Type())
}

// wrap reduces a mathematical integer result into the range of its Go type. Unsigned types wrap
// exactly; signed arithmetic is taken as mathematical (assumption "signed overflow does not occur",
// reported in the evidence).
func (fc *FnCtx) wrap(t string, ty types.Type) Val {
	b, ok := ty.Underlying().(*types.Basic)
	if !ok || b.Info()&types.IsInteger == 0 {
		return fc.mkVal(t, ty)
	}
	bits, signed := intBits(b)
	if signed {
		return fc.mkVal(t, ty)
	}
	return fc.mkVal(app("mod", t, pow2(bits)), ty)
}

func (fc *FnCtx) execBinOp(st *State, op token.Token, a, b Val, ty types.Type, pos token.Pos) Val {
	at, bt := a.T, b.T
	if a.Addr != nil {
		if t, ok := fc.ptrTerm(st, a); ok {
			at = t
		} else {
			fc.errorf("comparison of interior pointer at %s", fc.eng.pos(pos))
		}
	}
	if b.Addr != nil {
		if t, ok := fc.ptrTerm(st, b); ok {
			bt = t
		} else {
			fc.errorf("comparison of interior pointer at %s", fc.eng.pos(pos))
		}
	}
	isStr := a.Sort == sortStr
	isFloat := a.Sort == sortFloat
	switch op {
	case token.EQL, token.NEQ:
		var e string
		if a.Sort == sortSlice {
			// only comparison with nil is legal
			if bt == "slice_nil" {
				e = eq(app("arr", at), "0")
			} else {
				e = eq(app("arr", bt), "0")
			}
		} else {
			e = eq(at, bt)
		}
		if op == token.NEQ {
			e = not(e)
		}
		return fc.mkVal(e, ty)
	case token.LSS, token.LEQ, token.GTR, token.GEQ:
		sym := map[token.Token]string{token.LSS: "<", token.LEQ: "<=", token.GTR: ">", token.GEQ: ">="}[op]
		if isStr {
			return fc.mkVal(app(sym, app("strord", at), app("strord", bt)), ty)
		}
		if isFloat {
			return fc.mkVal(app("float_"+map[string]string{"<": "lt", "<=": "le", ">": "gt", ">=": "ge"}[sym], at, bt), ty)
		}
		return fc.mkVal(app(sym, at, bt), ty)
	case token.ADD:
		if isStr {
			return fc.mkVal(app("scat", at, bt), ty)
		}
		if isFloat {
			return fc.mkVal(app("float_add", at, bt), ty)
		}
		return fc.wrap(app("+", at, bt), ty)
	case token.SUB:
		if isFloat {
			return fc.mkVal(app("float_sub", at, bt), ty)
		}
		return fc.wrap(app("-", at, bt), ty)
	case token.MUL:
		if isFloat {
			return fc.mkVal(app("float_mul", at, bt), ty)
		}
		if isNumeral(at) || isNumeral(bt) {
			return fc.wrap(app("*", at, bt), ty)
		}
		return fc.wrap(app("nlmul", at, bt), ty)
	case token.QUO:
		if isFloat {
			return fc.mkVal(app("float_div", at, bt), ty)
		}
		fc.oblige(st, "divzero", not(eq(bt, "0")), pos, "division by zero")
		// Go truncates toward zero
		if !isNumeral(bt) || bt == "0" {
			// variable divisor: the quotient is an uninterpreted function with its bounds (prelude)
			return fc.wrap(app("goquo", at, bt), ty)
		}
		q := ite(app(">=", at, "0"), app("div", at, bt), app("-", app("div", app("-", at), bt)))
		return fc.wrap(q, ty)
	case token.REM:
		fc.oblige(st, "divzero", not(eq(bt, "0")), pos, "modulo by zero")
		if !isNumeral(bt) || bt == "0" {
			return fc.mkVal(app("gorem", at, bt), ty)
		}
		r := ite(app(">=", at, "0"), app("mod", at, bt), app("-", app("mod", app("-", at), bt)))
		return fc.mkVal(r, ty)
	case token.SHR:
		if isNumeral(bt) {
			return fc.mkVal(app("div", at, pow2str(bt)), ty)
		}
		return fc.mkVal(app("shr", at, bt), ty)
	case token.SHL:
		if isNumeral(bt) {
			return fc.wrap(app("*", at, pow2str(bt)), ty)
		}
		return fc.wrap(app("shl", at, bt), ty)
	case token.AND:
		if a.Sort == sortBool {
			return fc.mkVal(and(at, bt), ty)
		}
		return fc.mkVal(app("bitand", at, bt), ty)
	case token.OR:
		if a.Sort == sortBool {
			return fc.mkVal(or(at, bt), ty)
		}
		return fc.mkVal(app("bitor", at, bt), ty)
	case token.XOR:
		return fc.mkVal(app("bitxor", at, bt), ty)
	}
	fc.errorf("unsupported binop %v at %s", op, fc.eng.pos(pos))
	return fc.fresh(st, "binop", ty)
}

func isNumeral(s string) bool {
	if s == "" {
		return false
	}
	for _, c := range s {
		if c < '0' || c > '9' {
			return false
		}
	}
	return true
}

func pow2str(n string) string {
	var k int
	fmt.Sscanf(n, "%d", &k)
	r := "1"
	// decimal doubling
	for i := 0; i < k; i++ {
		carry := 0
		bs := []byte(r)
		for j := len(bs) - 1; j >= 0; j-- {
			d := int(bs[j]-'0')*2 + carry
			bs[j] = byte('0' + d%10)
			carry = d / 10
		}
		if carry > 0 {
			bs = append([]byte{byte('0' + carry)}, bs...)
		}
		r = string(bs)
	}
	return r
}

func (fc *FnCtx) execIndexAddr(st *State, x *ssa.IndexAddr) {
	v, i := fc.val(x.X), fc.val(x.Index)
	switch t := x.X.Type().Underlying().(type) {
	case *types.Slice:
		fc.oblige(st, "bounds", and(app("<=", "0", i.T), app("<", i.T, app("len", v.T))), x.Pos(), "slice index in range")
		a := &Addr{Kind: aElem, Elem: t.Elem(), Arr: app("arr", v.T), Idx: fc.sc.Define("ix", "Int", app("+", app("off", v.T), i.T)), Ty: t.Elem(), SliceT: v.T, IdxI: i.T}
		fc.regs[x] = Val{Addr: a, Ty: x.Type(), Sort: sortInt}
	case *types.Pointer:
		arr := t.Elem().Underlying().(*types.Array)
		fc.oblige(st, "bounds", and(app("<=", "0", i.T), app("<", i.T, fmt.Sprint(arr.Len()))), x.Pos(), "array index in range")
		a := &Addr{Kind: aElem, Elem: arr.Elem(), Arr: v.T, Idx: i.T, Ty: arr.Elem()}
		fc.regs[x] = Val{Addr: a, Ty: x.Type(), Sort: sortInt}
	default:
		fc.errorf("IndexAddr on %v", x.X.Type())
	}
}

func (fc *FnCtx) execLookup(st *State, x *ssa.Lookup) {
	v, k := fc.val(x.X), fc.val(x.Index)
	if m, ok := x.X.Type().Underlying().(*types.Map); ok {
		d, vl, _ := fc.mapKeys(m)
		has := app("select", app("select", fc.heapGet(st, d), v.T), k.T)
		val := ite(has, app("select", app("select", fc.heapGet(st, vl), v.T), k.T), fc.sorts.Zero(m.Elem()))
		// a nil map reads as empty
		has = and(not(eq(v.T, "0")), has)
		var mvT string
		if x.CommaOk {
			mvT = fc.sc.Define("mv", fc.sorts.SortOf(m.Elem()), val)
			fc.regs[x] = Val{Tuple: []Val{fc.mkVal(mvT, m.Elem()), fc.mkVal(fc.sc.Define("mok", "Bool", has), types.Typ[types.Bool])}, Ty: x.Type(), Sort: "Tuple"}
		} else {
			mvT = fc.sc.Define("mv", fc.sorts.SortOf(m.Elem()), ite(has, val, fc.sorts.Zero(m.Elem())))
			fc.regs[x] = fc.mkVal(mvT, m.Elem())
		}
		// values held by a map are well-typed values (lengths >= 0, references below the allocation mark)
		if isCheapInv(m.Elem()) && os.Getenv("NOMAPINV") == "" {
			fc.assume(st, fc.sorts.TypeInv(m.Elem(), mvT, st.alloc))
		}
		return
	}
	// string index
	fc.oblige(st, "bounds", and(app("<=", "0", k.T), app("<", k.T, app("slen", v.T))), x.Pos(), "string index in range")
	fc.regs[x] = fc.mkVal(app("sat", v.T, k.T), x.Type())
}

func (fc *FnCtx) execMapUpdate(st *State, x *ssa.MapUpdate) {
	mv, k, v := fc.val(x.Map), fc.val(x.Key), fc.val(x.Value)
	m := x.Map.Type().Underlying().(*types.Map)
	fc.oblige(st, "nilmap", not(eq(mv.T, "0")), x.Pos(), "assignment to entry in nil map")
	fc.mapStore(st, m, mv.T, k.T, v.T)
	// anchor "mapupdate#k": k-th map assignment of the function (ghost updates attach here)
	n := 0
	for _, b := range fc.curFn.Blocks {
		for _, in := range b.Instrs {
			if mu, ok := in.(*ssa.MapUpdate); ok {
				if mu == x {
					fc.pointClausesV(st, "after_call", fmt.Sprintf("mapupdate#%d", n), x.Pos(), map[string]Val{"mapkey": k, "mapval": v})
				}
				n++
			}
		}
	}
}

func (fc *FnCtx) mapStore(st *State, m *types.Map, mv, k, v string) {
	d, vl, l := fc.mapKeys(m)
	dom := app("select", fc.heapGet(st, d), mv)
	had := app("select", dom, k)
	ln := app("select", fc.heapGet(st, l), mv)
	st.heap[l] = fc.sc.Define(fc.hv[l].name, fc.hv[l].sort, app("store", fc.heapGet(st, l), mv, ite(had, ln, app("+", ln, "1"))))
	st.heap[d] = fc.sc.Define(fc.hv[d].name, fc.hv[d].sort, app("store", fc.heapGet(st, d), mv, app("store", dom, k, "true")))
	st.heap[vl] = fc.sc.Define(fc.hv[vl].name, fc.hv[vl].sort, app("store", fc.heapGet(st, vl), mv, app("store", app("select", fc.heapGet(st, vl), mv), k, v)))
}

func (fc *FnCtx) mapDelete(st *State, m *types.Map, mv, k string) {
	d, _, l := fc.mapKeys(m)
	dom := app("select", fc.heapGet(st, d), mv)
	had := app("select", dom, k)
	ln := app("select", fc.heapGet(st, l), mv)
	st.heap[l] = fc.sc.Define(fc.hv[l].name, fc.hv[l].sort, app("store", fc.heapGet(st, l), mv, ite(had, app("-", ln, "1"), ln)))
	st.heap[d] = fc.sc.Define(fc.hv[d].name, fc.hv[d].sort, app("store", fc.heapGet(st, d), mv, app("store", dom, k, "false")))
}

func (fc *FnCtx) execSlice(st *State, x *ssa.Slice) {
	v := fc.val(x.X)
	var lo, hi, mx string
	if x.Low != nil {
		lo = fc.val(x.Low).T
	} else {
		lo = "0"
	}
	switch t := x.X.Type().Underlying().(type) {
	case *types.Basic: // string
		if x.High != nil {
			hi = fc.val(x.High).T
		} else {
			hi = app("slen", v.T)
		}
		fc.oblige(st, "bounds", and(app("<=", "0", lo), app("<=", lo, hi), app("<=", hi, app("slen", v.T))), x.Pos(), "string slice bounds")
		fc.regs[x] = fc.mkVal(fc.sc.Define("ss", sortStr, app("sslice", v.T, lo, hi)), x.Type())
	case *types.Slice:
		if x.High != nil {
			hi = fc.val(x.High).T
		} else {
			hi = app("len", v.T)
		}
		if x.Max != nil {
			mx = fc.val(x.Max).T
		} else {
			mx = app("cap", v.T)
		}
		fc.oblige(st, "bounds", and(app("<=", "0", lo), app("<=", lo, hi), app("<=", hi, mx), app("<=", mx, app("cap", v.T))), x.Pos(), "slice bounds")
		fc.regs[x] = fc.mkVal(fc.sc.Define("sl", sortSlice, app("mk_slice", app("arr", v.T), app("+", app("off", v.T), lo), app("-", hi, lo), app("-", mx, lo))), x.Type())
		_ = t
	case *types.Pointer: // pointer to array
		arr := t.Elem().Underlying().(*types.Array)
		n := fmt.Sprint(arr.Len())
		if x.High != nil {
			hi = fc.val(x.High).T
		} else {
			hi = n
		}
		fc.oblige(st, "bounds", and(app("<=", "0", lo), app("<=", lo, hi), app("<=", hi, n)), x.Pos(), "array slice bounds")
		ln, cp := app("-", hi, lo), app("-", n, lo)
		if isNumeral(hi) && isNumeral(lo) {
			var a, b, c int
			fmt.Sscan(hi, &a)
			fmt.Sscan(lo, &b)
			fmt.Sscan(n, &c)
			ln, cp = fmt.Sprint(a-b), fmt.Sprint(c-b)
		}
		fc.regs[x] = fc.mkVal(app("mk_slice", v.T, lo, ln, cp), x.Type())
	default:
		fc.errorf("slice of %v", x.X.Type())
	}
}

func (fc *FnCtx) execConvert(st *State, x *ssa.Convert) Val {
	v := fc.val(x.X)
	from, to := x.X.Type().Underlying(), x.Type().Underlying()
	fb, fok := from.(*types.Basic)
	tb, tok := to.(*types.Basic)
	switch {
	case fok && tok && fb.Info()&types.IsInteger != 0 && tb.Info()&types.IsInteger != 0:
		bits, signed := intBits(tb)
		fbits, fsigned := intBits(fb)
		if fsigned == signed && bits >= fbits || (!fsigned && signed && bits > fbits) {
			return fc.mkVal(v.T, x.Type())
		}
		if bits < fbits {
			// a narrowing conversion silently drops high bits; functions marked `checked_conversions`
			// (the encoders: a truncated length field cannot be decoded) must show that nothing is lost
			if con := fc.eng.contracts[fc.eng.fnName(fc.curFn)]; con != nil && len(con.Extra["checked_conversions"]) > 0 {
				lo, hi, _ := intRange(tb)
				fc.oblige(st, "trunc", and(app("<=", lo, v.T), app("<=", v.T, hi)), x.Pos(), fmt.Sprintf("conversion %s -> %s loses no bits", fb.Name(), tb.Name()))
			}
		}
		m := app("mod", v.T, pow2(bits))
		if !signed {
			return fc.mkVal(fc.sc.Define("cv", "Int", m), x.Type())
		}
		mm := fc.sc.Define("cv", "Int", m)
		return fc.mkVal(ite(app("<", mm, pow2(bits-1)), mm, app("-", mm, pow2(bits))), x.Type())
	case fok && tok && fb.Info()&types.IsInteger != 0 && tb.Info()&types.IsFloat != 0:
		return fc.mkVal(app("float_of_int", v.T), x.Type())
	case fok && tok && fb.Info()&types.IsFloat != 0 && tb.Info()&types.IsInteger != 0:
		r := fc.fresh(st, "f2i", x.Type())
		fc.assume(st, eq(r.T, app("int_of_float", v.T)))
		return r
	case fok && tok && fb.Info()&types.IsFloat != 0 && tb.Info()&types.IsFloat != 0:
		return fc.mkVal(v.T, x.Type())
	case fok && fb.Info()&types.IsString != 0:
		if sl, ok := to.(*types.Slice); ok {
			// []byte(s): fresh array holding the bytes of s
			arr := fc.newRef(st)
			fc.setArr(st, sl.Elem(), arr, app("chars", v.T))
			return fc.mkVal(app("mk_slice", arr, "0", app("slen", v.T), app("slen", v.T)), x.Type())
		}
	case tok && tb.Info()&types.IsString != 0:
		if sl, ok := from.(*types.Slice); ok {
			k := fc.elemKey(sl.Elem())
			return fc.mkVal(fc.sc.Define("s", sortStr, app("str_of", app("select", fc.heapGet(st, k), app("arr", v.T)), app("off", v.T), app("len", v.T))), x.Type())
		}
	}
	if _, ok := to.(*types.Pointer); ok {
		return v
	}
	fc.errorf("unsupported conversion %v -> %v at %s", x.X.Type(), x.Type(), fc.eng.pos(x.Pos()))
	return fc.fresh(st, "conv", x.Type())
}

func (fc *FnCtx) execTypeAssert(st *State, x *ssa.TypeAssert) {
	v := fc.val(x.X)
	if _, isIface := x.AssertedType.Underlying().(*types.Interface); isIface {
		// interface-to-interface assertion: succeeds for non-nil values (assumed to implement)
		if x.CommaOk {
			fc.regs[x] = Val{Tuple: []Val{v, fc.fresh(st, "taok", types.Typ[types.Bool])}, Ty: x.Type(), Sort: "Tuple"}
		} else {
			fc.regs[x] = v
		}
		return
	}
	tag := fc.sorts.Tag(x.AssertedType)
	ok := eq(app("iface_tag", v.T), tag)
	val := fc.mkVal(fc.sorts.Unbox(x.AssertedType, v.T), x.AssertedType)
	if x.CommaOk {
		fc.regs[x] = Val{Tuple: []Val{val, fc.mkVal(ok, types.Typ[types.Bool])}, Ty: x.Type(), Sort: "Tuple"}
		return
	}
	fc.oblige(st, "typeassert", ok, x.Pos(), "type assertion to "+fc.eng.typeName(x.AssertedType))
	fc.assume(st, ok)
	if isCheapInv(x.AssertedType) {
		val.T = fc.sc.Define("ta", val.Sort, val.T)
		fc.assume(st, fc.sorts.TypeInv(x.AssertedType, val.T, st.alloc))
	}
	fc.regs[x] = val
}

func (fc *FnCtx) execNext(st *State, x *ssa.Next) {
	it := fc.val(x.Iter)
	r := it.Iter
	if r == nil {
		fc.errorf("next on unknown iterator")
		return
	}
	m, ok := r.X.Type().Underlying().(*types.Map)
	if !ok {
		fc.errorf("next on non-map iterator")
		return
	}
	mv := it.T
	key := fc.iterKey(r)
	seen := fc.heapGet(st, key)
	d, vl, _ := fc.mapKeys(m)
	okv := fc.sc.Fresh("nxok", "Bool")
	k := fc.fresh(st, "nxk", m.Key())
	dom := app("select", fc.heapGet(st, d), mv)
	ks := fc.sorts.SortOf(m.Key())
	fc.assume(st, implies(okv, and(not(eq(mv, "0")), app("select", dom, k.T), not(app("select", seen, k.T)))))
	fc.assume(st, implies(not(okv), or(eq(mv, "0"), fmt.Sprintf("(forall ((k!q %s)) (! (=> (select %s k!q) (select %s k!q)) :pattern ((select %s k!q))))", ks, dom, seen, dom))))
	st.heap[key] = fc.sc.Define(fc.hv[key].name, fc.hv[key].sort, ite(okv, app("store", seen, k.T, "true"), seen))
	v := fc.mkVal(fc.sc.Define("nxv", fc.sorts.SortOf(m.Elem()), app("select", app("select", fc.heapGet(st, vl), mv), k.T)), m.Elem())
	fc.regs[x] = Val{Tuple: []Val{fc.mkVal(okv, types.Typ[types.Bool]), k, v}, Ty: x.Type(), Sort: "Tuple"}
}

// ---- concurrency primitives (contracts of the runtime are in lib; here only the plumbing) ----

func (fc *FnCtx) execGo(fr *frame, st *State, x *ssa.Go) {
	// the spawned function is verified separately as a thread entry; the spawner continues.
	fc.note("go statement at %s: spawned function verified separately", fc.eng.pos(x.Pos()))
	fc.hookCall(st, "go", x.Common(), x.Pos())
}

func (fc *FnCtx) execSend(fr *frame, st *State, x *ssa.Send) {
	ch := fc.val(x.Chan)
	fc.hookChan(st, "send", ch, x.Pos())
	// anchor "send#k": k-th channel send of the function; `sent` is the value sent
	n := 0
	for _, b := range fc.curFn.Blocks {
		for _, in := range b.Instrs {
			if sd, ok := in.(*ssa.Send); ok {
				if sd == x {
					fc.pointClausesV(st, "after_call", fmt.Sprintf("send#%d", n), x.Pos(), map[string]Val{"sent": fc.val(x.X)})
				}
				n++
			}
		}
	}
}

func (fc *FnCtx) execRecv(st *State, x *ssa.UnOp, ch Val) Val {
	fc.hookChan(st, "recv", ch, x.Pos())
	if x.CommaOk {
		el := x.X.Type().Underlying().(*types.Chan).Elem()
		return Val{Tuple: []Val{fc.fresh(st, "rcv", el), fc.fresh(st, "rcvok", types.Typ[types.Bool])}, Ty: x.Type(), Sort: "Tuple"}
	}
	return fc.fresh(st, "rcv", x.Type())
}

func (fc *FnCtx) execSelect(fr *frame, st *State, x *ssa.Select) {
	// result: (index int, recvOk bool, r_0 T_0, ... r_n-1 T_n-1)
	tup := x.Type().(*types.Tuple)
	var vs []Val
	idx := fc.fresh(st, "selidx", types.Typ[types.Int])
	lo := "0"
	if !x.Blocking {
		lo = "(- 1)"
	}
	fc.assume(st, and(app("<=", lo, idx.T), app("<", idx.T, fmt.Sprint(len(x.States)))))
	vs = append(vs, idx)
	// anchor "select#k": k-th select of the function; `selidx` is the index of the case taken
	{
		n := 0
		for _, b := range fc.curFn.Blocks {
			for _, in := range b.Instrs {
				if sl, ok := in.(*ssa.Select); ok {
					if sl == x {
						fc.pointClausesV(st, "after_call", fmt.Sprintf("select#%d", n), x.Pos(), map[string]Val{"selidx": idx})
					}
					n++
				}
			}
		}
	}
	for i := 1; i < tup.Len(); i++ {
		vs = append(vs, fc.fresh(st, "selv", tup.At(i).Type()))
	}
	for _, s := range x.States {
		kind := "recv"
		if s.Dir == types.SendOnly {
			kind = "send"
		}
		fc.hookChan(st, "select."+kind, fc.val(s.Chan), x.Pos())
	}
	fc.regs[x] = Val{Tuple: vs, Ty: x.Type(), Sort: "Tuple"}
}

func (fc *FnCtx) hookChan(st *State, kind string, ch Val, pos token.Pos) {
	fc.lockHookChan(st, kind, ch, pos)
}

func (fc *FnCtx) hookCall(st *State, kind string, c *ssa.CallCommon, pos token.Pos) {}

func describeCall(c *ssa.CallCommon) string {
	s := c.String()
	if len(s) > 80 {
		s = s[:80]
	}
	return strings.ReplaceAll(s, "\n", " ")
}
