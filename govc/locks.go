package main

// Lock discipline (C12, C15): a ghost lockset per activation, guarded-field obligations, and
// wait-level obligations for blocking operations.
//
// Contract-file directives:
//   field pkg.Type.f guarded_by(mu)       every access needs the same object's lock mu (reads: at least RLock)
//   field pkg.Type.f read_shared(mu)      writes need mu in write mode; reads are allowed without it
//   field pkg.Type.f immutable            written only while the object is not yet shared (allocated in this activation)
//   field pkg.Type.f atomic               accessed through sync/atomic only
//   field pkg.Type.f confined             used by one goroutine at a time by construction (reason in the contract file)
//   field pkg.Type.f lock                 the field is a mutex itself
// Function clauses:
//   holds x.mu            the caller holds x.mu (write mode) for the whole call
//   holds_read x.mu       ... at least in read mode
//   level NAME            (C15) see waitLevels

import (
	"fmt"
	"go/token"
	"go/types"
	"strings"
)

type heldLock struct {
	owner string // struct type name
	field string
	ref   string // object reference term
	write bool
}

func (h heldLock) String() string {
	m := "r"
	if h.write {
		m = "w"
	}
	return fmt.Sprintf("%s.%s@%s/%s", h.owner, h.field, h.ref, m)
}

func parseHeld(s string) heldLock {
	// inverse of String
	var h heldLock
	i := strings.LastIndex(s, "/")
	h.write = s[i+1:] == "w"
	s = s[:i]
	j := strings.Index(s, "@")
	h.ref = s[j+1:]
	of := s[:j]
	k := strings.LastIndex(of, ".")
	h.owner, h.field = of[:k], of[k+1:]
	return h
}

var lockMethods = map[string]string{
	"(*sync.Mutex).Lock": "lock", "(*sync.Mutex).Unlock": "unlock",
	"(*sync.RWMutex).Lock": "lock", "(*sync.RWMutex).Unlock": "unlock",
	"(*sync.RWMutex).RLock": "rlock", "(*sync.RWMutex).RUnlock": "runlock",
}

// lockIdOf: the lock a *sync.Mutex argument denotes (a field of a heap object).
func (fc *FnCtx) lockIdOf(v Val) (heldLock, bool) {
	a := v.Addr
	if a == nil || a.Kind != aField {
		return heldLock{}, false
	}
	st := a.Owner.Underlying().(*types.Struct)
	name := st.Field(a.Field).Name()
	for _, p := range a.Path {
		name += "." + p.st.Underlying().(*types.Struct).Field(p.idx).Name()
	}
	return heldLock{owner: fc.eng.typeName(a.Owner), field: name, ref: a.Ref}, true
}

func (fc *FnCtx) heldCond(st *State, l heldLock, needWrite bool) string {
	var alts []string
	for _, hs := range st.held {
		h := parseHeld(hs)
		if h.owner == l.owner && h.field == l.field && (h.write || !needWrite) {
			alts = append(alts, eq(h.ref, l.ref))
		}
	}
	return or(alts...)
}

func (fc *FnCtx) lockHookCall(st *State, con *Contract, env *specEnv, pos token.Pos) {
	kind, isLock := lockMethods[con.Name]
	if isLock {
		recv, ok := env.vars["m"]
		if !ok {
			fc.note("lock hook: receiver not bound for %s", con.Name)
			return
		}
		l, ok := fc.lockIdOf(recv)
		if !ok {
			fc.note("lock operation on a mutex that is not a field of a heap object at %s (not tracked)", fc.eng.pos(pos))
			return
		}
		switch kind {
		case "lock", "rlock":
			// Go mutexes are not re-entrant: taking a lock this activation already holds blocks for ever
			fc.oblige(st, "lock.reentry", not(fc.heldCond(st, l, false)), pos, "lock "+l.owner+"."+l.field+" is not already held by this activation")
			fc.waitLevelCheck(st, "lock:"+l.owner+"."+l.field, pos)
			l.write = kind == "lock"
			st.held = append(st.held, l.String())
		case "unlock", "runlock":
			need := kind == "unlock"
			fc.oblige(st, "unlock", fc.heldCond(st, l, need), pos, "unlock of "+l.owner+"."+l.field+" which is held")
			// remove one matching entry (the last acquired)
			for i := len(st.held) - 1; i >= 0; i-- {
				h := parseHeld(st.held[i])
				if h.owner == l.owner && h.field == l.field && h.write == need {
					st.held = append(append([]string(nil), st.held[:i]...), st.held[i+1:]...)
					break
				}
			}
		}
		return
	}
	// callee requires locks to be held
	for _, cl := range append(append([]*Clause(nil), con.Holds...), con.Extra["holds_read"]...) {
		needWrite := true
		for _, r := range con.Extra["holds_read"] {
			if r == cl {
				needWrite = false
			}
		}
		lv := fc.evalLockExpr(env, cl)
		if lv == nil {
			continue
		}
		fc.oblige(st, "holds", fc.heldCond(st, *lv, needWrite), pos, "callee "+con.Name+" requires "+cl.Text+" to be held")
	}
	// blocking callee (C15)
	for _, cl := range con.Extra["blocks"] {
		fc.waitLevelCheck(st, "wait:"+strings.TrimSpace(cl.Text), pos)
	}
}

func (fc *FnCtx) evalLockExpr(env *specEnv, cl *Clause) *heldLock {
	if cl.Expr == nil {
		return nil
	}
	lv := fc.evalLvalue(env, cl.Expr)
	if lv == nil || lv.addr == nil {
		fc.errorf("%s: cannot resolve lock %s", cl.Pos, cl.Text)
		return nil
	}
	l, ok := fc.lockIdOf(Val{Addr: lv.addr})
	if !ok {
		fc.errorf("%s: %s is not a mutex field", cl.Pos, cl.Text)
		return nil
	}
	return &l
}

func (fc *FnCtx) lockEntry(st *State, con *Contract, env *specEnv) {
	for _, cl := range con.Holds {
		if l := fc.evalLockExpr(env, cl); l != nil {
			l.write = true
			st.held = append(st.held, l.String())
		}
	}
	for _, cl := range con.Extra["holds_read"] {
		if l := fc.evalLockExpr(env, cl); l != nil {
			st.held = append(st.held, l.String())
		}
	}
	fc.entryHeld = append([]string(nil), st.held...)
	fc.serves = servedBy(con)
}

func (fc *FnCtx) lockExit(st *State, con *Contract, env *specEnv) {
	// every lock taken by this activation is released again (and nothing the caller holds is released)
	if strings.Join(st.held, ",") != strings.Join(fc.entryHeld, ",") {
		fc.oblige(st, "lock.balance", "false", fc.fn.Pos(), fmt.Sprintf("locks held at exit %v differ from entry %v", st.held, fc.entryHeld))
	}
}

func (fc *FnCtx) lockHeld(st *State, v Val) string {
	if l, ok := fc.lockIdOf(v); ok {
		return fc.heldCond(st, l, false)
	}
	return "false"
}

// guardCheck: obligations for an access to a classified field.
func (fc *FnCtx) guardCheck(st *State, a *Addr, write bool, pos token.Pos) {
	if a.Kind != aField || !fc.eng.lockMode {
		return
	}
	owner := fc.eng.typeName(a.Owner)
	fname := a.Owner.Underlying().(*types.Struct).Field(a.Field).Name()
	key := owner + "." + fname
	fi := fc.eng.fieldInfo[key]
	if fi == nil {
		if fc.eng.sharedTypes[owner] {
			fc.oblige(st, "guard.unclassified", "false", pos, "field "+key+" of a shared type has no concurrency classification")
		}
		return
	}
	// an object allocated by this activation is not shared yet
	fresh := "false"
	if fc.entry != nil {
		fresh = app(">=", a.Ref, fc.entry.alloc)
	}
	what := "read"
	if write {
		what = "write"
	}
	switch fi.Class {
	case "guarded_by", "read_shared":
		if fi.Class == "read_shared" && !write {
			return
		}
		l := heldLock{owner: owner, field: fi.Arg, ref: a.Ref}
		g := or(fc.heldCond(st, l, write), fresh)

		fc.oblige(st, "guard", g, pos, fmt.Sprintf("%s of %s needs %s.%s held (%s mode) or an unshared object", what, key, owner, fi.Arg, map[bool]string{true: "write", false: "read"}[write]))
	case "immutable":
		if write {
			fc.oblige(st, "guard.immutable", fresh, pos, "write of immutable field "+key+" on a possibly shared object")
		}
	case "atomic":
		fc.oblige(st, "guard.atomic", fresh, pos, what+" of atomic field "+key+" without sync/atomic")
	case "confined", "lock":
		// nothing to prove here; the justification is part of the classification
	default:
		fc.errorf("unknown field class %s for %s", fi.Class, key)
	}
}

// ---- wait levels (C15): a blocking operation must be above every lock held ----

func (fc *FnCtx) waitLevelCheck(st *State, what string, pos token.Pos) {
	if true {
		return // superseded by waitCheckInstr (blocks.go), which also sees blocking operations inside callees
	}
	lv, ok := fc.eng.waitLevels[what]
	if !ok {
		fc.oblige(st, "waitlevel.undeclared", "false", pos, "blocking operation "+what+" has no declared wait level")
		return
	}
	for _, hs := range st.held {
		h := parseHeld(hs)
		hl, ok := fc.eng.waitLevels["lock:"+h.owner+"."+h.field]
		if !ok {
			continue
		}
		if hl >= lv {
			fc.oblige(st, "waitlevel", "false", pos, fmt.Sprintf("%s (level %d) while holding %s.%s (level %d): order violated", what, lv, h.owner, h.field, hl))
		}
	}
}

func (fc *FnCtx) lockHookChan(st *State, kind string, ch Val, pos token.Pos) {
	if !fc.eng.lockMode {
		return
	}
	name := "chan"
	if ch.Addr != nil && ch.Addr.Kind == aField {
		name = fc.eng.typeName(ch.Addr.Owner) + "." + ch.Addr.Owner.Underlying().(*types.Struct).Field(ch.Addr.Field).Name()
	} else if ch.chanName != "" {
		name = ch.chanName
	}
	if strings.HasPrefix(kind, "close") {
		return
	}
	fc.waitLevelCheck(st, strings.TrimPrefix(kind, "select.")+":"+name, pos)
}
