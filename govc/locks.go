package main

// Lock discipline and guarded-field obligations (C12/C15). Filled in later; the hooks are no-ops
// until the field classification is loaded.

import (
	"go/token"
)

func (fc *FnCtx) lockHookChan(st *State, kind string, ch Val, pos token.Pos) {}
func (fc *FnCtx) lockHookCall(st *State, con *Contract, env *specEnv, pos token.Pos) {}
func (fc *FnCtx) lockHeld(st *State, v Val) string                                   { return "false" }
func (fc *FnCtx) guardCheck(st *State, a *Addr, write bool, pos token.Pos)           {}
func (fc *FnCtx) lockEntry(st *State, con *Contract, env *specEnv)                   {}
func (fc *FnCtx) lockExit(st *State, con *Contract, env *specEnv)                    {}
