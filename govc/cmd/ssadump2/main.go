package main

import (
	"fmt"
	"go/types"
	"os"
	"strings"

	"golang.org/x/tools/go/packages"
	"golang.org/x/tools/go/ssa"
	"golang.org/x/tools/go/ssa/ssautil"
)

func main() {
	cfg := &packages.Config{Mode: packages.LoadAllSyntax, Dir: "/repo", BuildFlags: []string{"-tags=verif"}}
	pkgs, err := packages.Load(cfg, "./...")
	if err != nil {
		panic(err)
	}
	prog, spkgs := ssautil.AllPackages(pkgs, ssa.NaiveForm)
	prog.Build()
	for _, p := range spkgs {
		if p == nil {
			continue
		}
		for _, m := range p.Members {
			if f, ok := m.(*ssa.Function); ok {
				dump(f)
			}
			if t, ok := m.(*ssa.Type); ok {
				ms := prog.MethodSets.MethodSet(t.Type())
				for i := 0; i < ms.Len(); i++ {
					dump(prog.MethodValue(ms.At(i)))
				}
				ms = prog.MethodSets.MethodSet(types.NewPointer(t.Type()))
				for i := 0; i < ms.Len(); i++ {
					dump(prog.MethodValue(ms.At(i)))
				}
			}
		}
	}
	_ = spkgs
}

func dump(f *ssa.Function) {
	if f == nil {
		return
	}
	for _, a := range os.Args[1:] {
		if strings.Contains(f.String(), a) {
			f.WriteTo(os.Stdout)
			for _, an := range f.AnonFuncs {
				an.WriteTo(os.Stdout)
			}
			fmt.Println()
		}
	}
}
