package main

// SMT layer: a linear script of commands (declarations / definitions) built while a function is
// executed symbolically; an obligation is a prefix of that script plus (assert pc) (assert (not goal)).

import (
	"bytes"
	"context"
	"fmt"
	"os"
	"os/exec"
	"path/filepath"
	"regexp"
	"sort"
	"strings"
	"sync"
	"time"
)

type Script struct {
	cmds   []string
	nfresh int
	// declared datatypes / sorts / heap consts go to the header (emitted before cmds)
	header     []string
	headerSeen map[string]bool
}

func newScript() *Script { return &Script{headerSeen: map[string]bool{}} }

func (s *Script) Header(key, cmd string) {
	if s.headerSeen[key] {
		return
	}
	s.headerSeen[key] = true
	s.header = append(s.header, cmd)
}

func (s *Script) Fresh(prefix, sortName string) string {
	s.nfresh++
	n := fmt.Sprintf("%s!%d", sanitize(prefix), s.nfresh)
	s.cmds = append(s.cmds, fmt.Sprintf("(declare-const %s %s)", n, sortName))
	return n
}

// Define introduces a named abbreviation (define-fun) and returns its name.
func (s *Script) Define(prefix, sortName, term string) string {
	if isAtom(term) {
		return term
	}
	s.nfresh++
	n := fmt.Sprintf("%s!%d", sanitize(prefix), s.nfresh)
	s.cmds = append(s.cmds, fmt.Sprintf("(define-fun %s () %s %s)", n, sortName, term))
	return n
}

// DefineConst introduces a declared constant constrained to equal term (usable inside patterns,
// unlike a define-fun, which the solvers expand).
func (s *Script) DefineConst(prefix, sortName, term string) string {
	s.nfresh++
	n := fmt.Sprintf("%s!%d", sanitize(prefix), s.nfresh)
	s.cmds = append(s.cmds, fmt.Sprintf("(declare-const %s %s)\n(assert (= %s %s))", n, sortName, n, term))
	return n
}

func (s *Script) Mark() int { return len(s.cmds) }

func isAtom(t string) bool {
	return !strings.ContainsAny(t, " (")
}

func sanitize(s string) string {
	var b strings.Builder
	for _, r := range s {
		switch {
		case r >= 'a' && r <= 'z', r >= 'A' && r <= 'Z', r >= '0' && r <= '9', r == '_', r == '.', r == '$':
			b.WriteRune(r)
		default:
			b.WriteByte('_')
		}
	}
	if b.Len() == 0 {
		return "v"
	}
	return b.String()
}

// ---- term helpers ----

func app(f string, args ...string) string {
	if len(args) == 0 {
		return f
	}
	return "(" + f + " " + strings.Join(args, " ") + ")"
}

func and(xs ...string) string {
	var ys []string
	for _, x := range xs {
		if x == "true" || x == "" {
			continue
		}
		if x == "false" {
			return "false"
		}
		ys = append(ys, x)
	}
	switch len(ys) {
	case 0:
		return "true"
	case 1:
		return ys[0]
	}
	return app("and", ys...)
}

func or(xs ...string) string {
	var ys []string
	for _, x := range xs {
		if x == "false" || x == "" {
			continue
		}
		if x == "true" {
			return "true"
		}
		ys = append(ys, x)
	}
	switch len(ys) {
	case 0:
		return "false"
	case 1:
		return ys[0]
	}
	return app("or", ys...)
}

func not(x string) string {
	switch x {
	case "true":
		return "false"
	case "false":
		return "true"
	}
	if strings.HasPrefix(x, "(not ") && strings.HasSuffix(x, ")") {
		inner := x[5 : len(x)-1]
		if balanced(inner) {
			return inner
		}
	}
	return app("not", x)
}

func balanced(s string) bool {
	d := 0
	for i, c := range s {
		if c == '(' {
			d++
		} else if c == ')' {
			d--
			if d == 0 && i != len(s)-1 {
				return false
			}
			if d < 0 {
				return false
			}
		} else if d == 0 && c == ' ' {
			return false
		}
	}
	return d == 0
}

func implies(a, b string) string {
	if a == "true" {
		return b
	}
	if b == "true" || a == "false" {
		return "true"
	}
	return app("=>", a, b)
}

func ite(c, a, b string) string {
	if a == b {
		return a
	}
	if c == "true" {
		return a
	}
	if c == "false" {
		return b
	}
	return app("ite", c, a, b)
}

func eq(a, b string) string {
	if a == b {
		return "true"
	}
	return app("=", a, b)
}

// slice component accessors that see through literal mk_slice terms
func sliceParts(t string) []string {
	if !strings.HasPrefix(t, "(mk_slice ") {
		return nil
	}
	ps := splitSexprs(t[len("(mk_slice ") : len(t)-1])
	if len(ps) != 4 {
		return nil
	}
	return ps
}

func slArr(t string) string {
	if p := sliceParts(t); p != nil {
		return p[0]
	}
	return app("arr", t)
}

func slOff(t string) string {
	if p := sliceParts(t); p != nil {
		return p[1]
	}
	return app("off", t)
}

func slLen(t string) string {
	if p := sliceParts(t); p != nil {
		return p[2]
	}
	return app("len", t)
}

func slCap(t string) string {
	if p := sliceParts(t); p != nil {
		return p[3]
	}
	return app("cap", t)
}

func intLit(v int64) string {
	if v < 0 {
		if v == -9223372036854775808 {
			return "(- 9223372036854775808)"
		}
		return fmt.Sprintf("(- %d)", -v)
	}
	return fmt.Sprintf("%d", v)
}

func uintLit(v uint64) string { return fmt.Sprintf("%d", v) }

// ---- obligations ----

type Obligation struct {
	Name   string `json:"name"`
	Func   string `json:"func"`
	Kind   string `json:"kind"`
	Pos    string `json:"pos"`
	Props  []string `json:"props,omitempty"`
	Expect string `json:"-"` // "unsat" normally; "sat" for vacuity/cover checks
	script *Script
	prefix int
	pc     string
	goal   string
	extra  []string // extra assumptions (top-level asserts), e.g. instantiation hints

	Status  string  `json:"status"` // discharged | failed | undischarged | cover-ok | cover-failed
	Solver  string  `json:"solver,omitempty"`
	TimeS   float64 `json:"time_s"`
	Model   string  `json:"model,omitempty"`
	Detail  string  `json:"detail,omitempty"`
	Bytes   int     `json:"smt_bytes"`
	Agree   int     `json:"solvers_agreeing,omitempty"`
	GoalTxt string  `json:"goal,omitempty"`
}

func (o *Obligation) Text(prelude string, models bool) string {
	var b bytes.Buffer
	// proved lemmas (after the marker) may mention datatypes declared in the function's header
	axioms := ""
	if i := strings.Index(prelude, axiomMarker); i >= 0 {
		prelude, axioms = prelude[:i], prelude[i+len(axiomMarker):]
	}
	b.WriteString(prelude)
	for _, h := range o.script.header {
		b.WriteString(h)
		b.WriteByte('\n')
	}
	b.WriteString(axioms)
	// header entries may have been added after this obligation's prefix; they are declarations only
	for _, c := range o.script.cmds[:o.prefix] {
		b.WriteString(c)
		b.WriteByte('\n')
	}
	for _, e := range o.extra {
		fmt.Fprintf(&b, "(assert %s)\n", e)
	}
	fmt.Fprintf(&b, "(assert %s)\n", o.pc)
	if o.Expect != "sat" {
		fmt.Fprintf(&b, "(assert (not %s))\n", o.goal)
	}
	b.WriteString("(check-sat)\n")
	if models {
		b.WriteString("(get-model)\n")
	}
	return b.String()
}

func isLockKind(k string) bool {
	for _, p := range []string{"guard", "lock", "unlock", "holds", "waitlevel"} {
		if strings.HasPrefix(k, p) {
			return true
		}
	}
	return false
}

var noSweep bool

const axiomMarker = "\n;;AXIOMS;;\n"

type solverSpec struct {
	name string
	argv func(file string, timeoutS int, seed int) []string
	pre  string // text prepended
}

var solvers = []solverSpec{
	{"z3-new", func(f string, t, seed int) []string {
		return []string{"z3-new", fmt.Sprintf("-T:%d", t), fmt.Sprintf("smt.random_seed=%d", seed), f}
	}, ""},
	{"z3", func(f string, t, seed int) []string {
		return []string{"z3", fmt.Sprintf("-T:%d", t), fmt.Sprintf("smt.random_seed=%d", seed), f}
	}, ""},
	// pure E-matching configurations (Boogie style): no model-based instantiation, no auto-config
	{"z3-new-em", func(f string, t, seed int) []string {
		return []string{"z3-new", fmt.Sprintf("-T:%d", t), "smt.auto_config=false", "smt.mbqi=false", fmt.Sprintf("smt.random_seed=%d", seed), f}
	}, ""},
	{"z3-em", func(f string, t, seed int) []string {
		return []string{"z3", fmt.Sprintf("-T:%d", t), "smt.auto_config=false", "smt.mbqi=false", fmt.Sprintf("smt.random_seed=%d", seed), f}
	}, ""},
	{"cvc5", func(f string, t, seed int) []string {
		return []string{"cvc5", "--lang", "smt2", "-q", fmt.Sprintf("--tlimit=%d", t*1000), fmt.Sprintf("--seed=%d", seed), f}
	}, "(set-option :produce-models true)\n(set-logic ALL)\n"},
}

type solveResult struct {
	solver string
	verdict string // unsat sat unknown timeout error
	out    string
	dur    time.Duration
}

// procSem bounds the number of solver processes running at once (the portfolio would otherwise
// oversubscribe the machine and turn 5 s proofs into timeouts).
var noRetry *regexp.Regexp

var procSem = make(chan struct{}, 14)

func runSolver(ctx context.Context, sp solverSpec, text string, dir, base string, timeoutS, seed int) solveResult {
	select {
	case procSem <- struct{}{}:
		defer func() { <-procSem }()
	case <-ctx.Done():
		return solveResult{sp.name, "timeout", "cancelled", 0}
	}
	file := filepath.Join(dir, base+"."+sp.name+".smt2")
	if err := os.WriteFile(file, []byte(sp.pre+text), 0644); err != nil {
		return solveResult{sp.name, "error", err.Error(), 0}
	}
	defer os.Remove(file)
	// the budget is CPU time (ulimit -t), so that a loaded machine does not turn proofs into
	// timeouts; the wall-clock limits of the solver and of the context are five times as long
	argv := sp.argv(file, 5*timeoutS, seed)
	cctx, cancel := context.WithTimeout(ctx, time.Duration(5*timeoutS+2)*time.Second)
	defer cancel()
	start := time.Now()
	sh := append([]string{"-c", fmt.Sprintf("ulimit -t %d; exec \"$@\"", timeoutS+1), "sh"}, argv...)
	cmd := exec.CommandContext(cctx, "sh", sh...)
	out, _ := cmd.CombinedOutput()
	dur := time.Since(start)
	if ps := cmd.ProcessState; ps != nil && !ps.Exited() && cctx.Err() == nil && ctx.Err() == nil {
		// killed by a signal (SIGXCPU/SIGKILL from the CPU limit)
		return solveResult{sp.name, "timeout", "cpu limit", dur}
	}
	s := strings.TrimSpace(string(out))
	first := s
	for _, l := range strings.Split(s, "\n") {
		l = strings.TrimSpace(l)
		if l == "" || strings.HasPrefix(l, "WARNING") || strings.HasPrefix(l, ";") {
			continue
		}
		first = l
		break
	}
	v := "error"
	switch {
	case first == "unsat":
		v = "unsat"
	case first == "sat":
		v = "sat"
	case first == "unknown":
		v = "unknown"
	case first == "timeout" || strings.Contains(first, "timeout") || cctx.Err() != nil:
		v = "timeout"
	}
	return solveResult{sp.name, v, s, dur}
}

// discharge races the solver portfolio on one obligation.
func discharge(o *Obligation, prelude, dir string, timeoutS, seed int, both bool) {
	use := solvers
	if o.Expect == "sat" {
		// vacuity guards: look for a refutation for a short time with two configurations
		if timeoutS > 2 {
			timeoutS = 2
		}
		use = []solverSpec{solvers[0], solvers[3]}
	}
	text := o.Text(prelude, true)
	o.Bytes = len(text)
	base := sanitize(o.Name)
	if len(base) > 120 {
		base = base[:120]
	}
	base = fmt.Sprintf("%s.%d", base, time.Now().UnixNano()%1000000)
	ctx, cancel := context.WithCancel(context.Background())
	defer cancel()
	if o.goal == "(= 0 0)" && o.Kind == "waitlevel.ok" {
		// the level comparison was decided syntactically when the obligation was generated
		o.Status, o.Solver, o.Agree = "discharged", "level-order", 1
		return
	}
	if o.goal != "false" && o.Expect != "sat" && isLockKind(o.Kind) {
		// lockset obligations are ground and small: two short attempts decide them; a failure is
		// reported at once (no race, sweep or retry)
		for _, sp := range []solverSpec{solvers[2], solvers[0]} {
			r := runSolver(ctx, sp, text, dir, base+".l", 4, seed)
			o.TimeS += r.dur.Seconds()
			if r.verdict == "unsat" {
				o.Status, o.Solver, o.Agree = "discharged", r.solver, 1
				return
			}
			o.Detail += r.solver + "=" + r.verdict + " "
		}
		// not decided quickly: fall through to the full portfolio (a heavy function such as Open
		// needs more than the short budget for the freshness argument)
		o.Detail = ""
	}
	if o.goal == "false" && o.Expect != "sat" && isLockKind(o.Kind) {
		// "this point is unreachable": decided by a short refutation attempt of the path condition;
		// not retried (nothing but an infeasible path can discharge it)
		r := runSolver(ctx, solvers[1], text, dir, base+".u", 3, seed)
		o.TimeS = r.dur.Seconds()
		if r.verdict == "unsat" {
			o.Status, o.Solver, o.Agree = "discharged", r.solver, 1
		} else {
			o.Status = "failed"
			o.Detail = "the path to this point was not refuted (" + r.solver + "=" + r.verdict + ")"
		}
		return
	}
	if !both && o.Expect != "sat" {
		// stage 1: one fast E-matching run; most obligations end here
		r := runSolver(ctx, solvers[1], text, dir, base+".s1", 2, seed)
		if r.verdict == "unsat" {
			o.Status, o.Solver, o.TimeS, o.Agree = "discharged", r.solver, r.dur.Seconds(), 1
			return
		}
	}
	ch := make(chan solveResult, len(use))
	start := time.Now()
	for _, sp := range use {
		go func(sp solverSpec) { ch <- runSolver(ctx, sp, text, dir, base, timeoutS, seed) }(sp)
	}
	var results []solveResult
	decided := 0
	bases := map[string]bool{}
	var final *solveResult
	for range use {
		r := <-ch
		results = append(results, r)
		if r.verdict == "unsat" || r.verdict == "sat" {
			decided++
			if final == nil {
				rr := r
				final = &rr
			} else if final.verdict != r.verdict {
				o.Status = "undischarged"
				o.Detail = fmt.Sprintf("SOLVER DISAGREEMENT: %s=%s %s=%s", final.solver, final.verdict, r.solver, r.verdict)
				o.TimeS = time.Since(start).Seconds()
				return
			}
			bases[strings.TrimSuffix(r.solver, "-em")] = true
			if !both || len(bases) >= 2 {
				o.Agree = len(bases)
				break
			}
			o.Agree = len(bases)
		}
	}
	cancel()
	o.TimeS = time.Since(start).Seconds()
	if final == nil && o.Expect != "sat" && !noSweep {
		// seed sweep: the quantifier-heavy obligations are decided in a fraction of a second or not at
		// all, depending on the solver's random seed; a proof found with any seed is a proof
		ctx2, cancel2 := context.WithCancel(context.Background())
		sw := make(chan solveResult, 8)
		n := 0
		for k := 0; k < 8; k++ {
			if k == seed {
				continue
			}
			n++
			go func(k int) { sw <- runSolver(ctx2, solvers[0], text, dir, fmt.Sprintf("%s.sw%d", base, k), 4, k) }(k)
		}
		for i := 0; i < n; i++ {
			r := <-sw
			if r.verdict == "unsat" && final == nil {
				rr := r
				rr.solver = r.solver + "(seed sweep)"
				final = &rr
				o.Agree = 1
				cancel2()
			}
		}
		cancel2()
		o.TimeS = time.Since(start).Seconds()
	}
	if final == nil {
		o.Status = "undischarged"
		var ds []string
		for _, r := range results {
			d := r.verdict
			if r.verdict == "error" {
				d += ": " + firstLines(r.out, 3)
			}
			ds = append(ds, r.solver+"="+d)
		}
		sort.Strings(ds)
		o.Detail = strings.Join(ds, "; ")
		if o.Expect == "sat" {
			// vacuity guard: the assumptions were not shown contradictory within the budget
			o.Status = "cover-ok"
			o.Detail = "not refuted: " + o.Detail
			// ... unless no solver could even read the query: then the guard did not run at all
			allErr := len(results) > 0
			for _, r := range results {
				if r.verdict != "error" {
					allErr = false
				}
			}
			if allErr {
				o.Status = "cover-error"
			}
		}
		return
	}
	o.Solver = final.solver
	if o.Expect == "sat" {
		if final.verdict == "sat" {
			o.Status = "cover-ok"
		} else {
			o.Status = "cover-failed"
			o.Detail = "assumptions are contradictory (vacuous)"
		}
		return
	}
	if final.verdict == "unsat" {
		o.Status = "discharged"
	} else {
		o.Status = "failed"
		o.Model = final.out
	}
}

func firstLines(s string, n int) string {
	ls := strings.Split(s, "\n")
	if len(ls) > n {
		ls = ls[:n]
	}
	return strings.Join(ls, " | ")
}

func dischargeAll(obs []*Obligation, prelude, dir string, timeoutS, seed, workers int, both bool) {
	dischargeAll1(obs, prelude, dir, timeoutS, seed, workers, both)
	// second chance, one at a time and with a doubled budget, for what only timed out under load
	// (at most 5 obligations: a tree that really breaks a property fails many, and is not retried)
	var cand []*Obligation
	for _, o := range obs {
		if noRetry != nil && noRetry.MatchString(o.Name) {
			continue // a listed known finding: it is expected to stay open
		}
		if o.Status == "undischarged" && strings.Contains(o.Detail, "timeout") && !strings.Contains(o.Detail, "DISAGREEMENT") {
			cand = append(cand, o)
		}
	}
	if len(cand) > 5 {
		return
	}
	for _, o := range cand {
		{
			first := o.Detail
			// a proof found with another seed or a larger budget is still a proof
			for attempt := 1; attempt <= 2 && o.Status == "undischarged"; attempt++ {
				discharge(o, prelude, dir, (1+attempt)*timeoutS, seed+attempt*7919, both)
			}
			if o.Status == "undischarged" {
				o.Detail = o.Detail + " (first attempt: " + first + ")"
			} else {
				o.Detail = "discharged on a sequential retry"
			}
		}
	}
}

func dischargeAll1(obs []*Obligation, prelude, dir string, timeoutS, seed, workers int, both bool) {
	var wg sync.WaitGroup
	ch := make(chan *Obligation)
	for i := 0; i < workers; i++ {
		wg.Add(1)
		go func() {
			defer wg.Done()
			for o := range ch {
				discharge(o, prelude, dir, timeoutS, seed, both)
			}
		}()
	}
	for _, o := range obs {
		ch <- o
	}
	close(ch)
	wg.Wait()
}
