package main

import (
	"fmt"
	"go/constant"
	"go/token"
	"go/types"
	"os"
	"sort"
	"strings"

	"golang.org/x/tools/go/packages"
	"golang.org/x/tools/go/ssa"
	"golang.org/x/tools/go/ssa/ssautil"
)

type Engine struct {
	repo     string
	fset     *token.FileSet
	prog     *ssa.Program
	pkgs     []*packages.Package
	spkgs    []*ssa.Package
	allFuncs map[string]*ssa.Function // short name -> function
	pathRepl *strings.Replacer

	contracts map[string]*Contract
	macros    map[string]*Macro
	specFns   map[string]*SpecFn
	ghosts    map[string]*GhostVar
	ghostOrder []string
	lemmas    []*Lemma
	globalInvs []*GlobalInv
	lemmaTypes map[string]types.Type
	lockMode   bool
	wsCache    map[*ssa.Function]*writeSet
	blockCache map[*ssa.Function]blockSet
	missingContracts []string
	sharedTypes map[string]bool
	waitLevels map[string]int
	smtLines  []string // repo-level spec theory
	prelude   string
	fieldInfo map[string]*FieldClass // "pkg.Type.field" -> classification (C12)

	notes []string
	strLits map[string]string
	strLitDecls []string
	fltLits map[string]string
	fltVals map[string]constant.Value
}

func loadEngine(repo string, tags string) (*Engine, error) {
	cfg := &packages.Config{Mode: packages.LoadAllSyntax, Dir: repo, BuildFlags: []string{"-tags=" + tags}, Tests: false}
	pkgs, err := packages.Load(cfg, "./...")
	if err != nil {
		return nil, err
	}
	nerr := 0
	packages.Visit(pkgs, nil, func(p *packages.Package) {
		for _, e := range p.Errors {
			fmt.Fprintln(os.Stderr, "load error:", e)
			nerr++
		}
	})
	if nerr > 0 {
		return nil, fmt.Errorf("%d package load errors", nerr)
	}
	prog, spkgs := ssautil.AllPackages(pkgs, ssa.NaiveForm|ssa.InstantiateGenerics)
	prog.Build()
	e := &Engine{repo: repo, fset: prog.Fset, prog: prog, pkgs: pkgs, spkgs: spkgs,
		allFuncs: map[string]*ssa.Function{}, contracts: map[string]*Contract{}, macros: map[string]*Macro{},
		specFns: map[string]*SpecFn{}, ghosts: map[string]*GhostVar{}, fieldInfo: map[string]*FieldClass{}, lemmaTypes: map[string]types.Type{}, sharedTypes: map[string]bool{}, waitLevels: map[string]int{}, strLits: map[string]string{}, fltLits: map[string]string{}}
	// path shortening: import path -> package name
	var repl []string
	type pr struct{ path, name string }
	var prs []pr
	nameCount := map[string]int{}
	for _, p := range prog.AllPackages() {
		nameCount[p.Pkg.Name()]++
	}
	for _, p := range prog.AllPackages() {
		if p.Pkg.Path() != p.Pkg.Name() {
			// a package name used by several packages (sync / internal/sync) is only shortened for
			// the one whose path is not internal
			if nameCount[p.Pkg.Name()] > 1 && (strings.HasPrefix(p.Pkg.Path(), "internal/") || strings.Contains(p.Pkg.Path(), "/internal/") || strings.HasPrefix(p.Pkg.Path(), "vendor/")) {
				continue
			}
			prs = append(prs, pr{p.Pkg.Path(), p.Pkg.Name()})
		}
	}
	sort.Slice(prs, func(i, j int) bool { return len(prs[i].path) > len(prs[j].path) })
	for _, p := range prs {
		repl = append(repl, p.path, p.name)
	}
	e.pathRepl = strings.NewReplacer(repl...)
	for fn := range ssautil.AllFunctions(prog) {
		if fn.Synthetic != "" && fn.Syntax() == nil && !strings.HasPrefix(fn.Synthetic, "instance of") {
			continue
		}
		e.allFuncs[e.shorten(fn.String())] = fn
	}
	return e, nil
}

func (e *Engine) shorten(s string) string { return e.pathRepl.Replace(s) }

func (e *Engine) fnName(fn *ssa.Function) string { return e.shorten(fn.String()) }

func (e *Engine) pos(p token.Pos) string {
	if !p.IsValid() {
		return ""
	}
	ps := e.fset.Position(p)
	f := strings.TrimPrefix(ps.Filename, e.repo+"/")
	return fmt.Sprintf("%s:%d", f, ps.Line)
}

func (e *Engine) isRepoFunc(fn *ssa.Function) bool {
	if fn.Pkg == nil {
		if fn.Origin() != nil && fn.Origin().Pkg != nil {
			return strings.HasPrefix(fn.Origin().Pkg.Pkg.Path(), "github.com/B1NARY-GR0UP/originium")
		}
		return false
	}
	return strings.HasPrefix(fn.Pkg.Pkg.Path(), "github.com/B1NARY-GR0UP/originium")
}

// lookupNamedType resolves "pkg.Type" or "Type" (in pkg scope) for spec expressions.
func (e *Engine) lookupNamedType(scope *types.Package, qual, name string) types.Type {
	if qual == "" {
		if scope != nil {
			if o := scope.Scope().Lookup(name); o != nil {
				if tn, ok := o.(*types.TypeName); ok {
					return tn.Type()
				}
			}
		}
		if o := types.Universe.Lookup(name); o != nil {
			if tn, ok := o.(*types.TypeName); ok {
				return tn.Type()
			}
		}
		return nil
	}
	for _, p := range e.prog.AllPackages() {
		if p.Pkg.Name() == qual {
			if o := p.Pkg.Scope().Lookup(name); o != nil {
				if tn, ok := o.(*types.TypeName); ok {
					return tn.Type()
				}
			}
		}
	}
	return nil
}
