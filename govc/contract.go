package main

// Contract files: comment-only Go files in /repo (build tag verif) and library specs in /verif/govc/lib.
// Syntax (every line starts with //@ in /repo files; the prefix is optional in lib files):
//
//   smt <s-expression>                      raw SMT-LIB added to the theory (declare-fun, axioms)
//   define name(a, b) = expr                macro (untyped, expanded at use)
//   ghost name <SMT sort>                   global ghost variable
//   lemma name [props C..]: expr            pure lemma obligation
//   func NAME[(p1, p2)] [-> r1, r2]         start of a function contract; then clauses:
//     props C10 C01
//     requires E | ensures E | assigns T1, T2 | pure | trusted [reason] | inline | noreturn
//     loop N:   then   invariant E | decreases E
//   | text                                  continuation of the previous clause

import (
	"bufio"
	"fmt"
	"go/ast"
	"go/parser"
	"go/types"
	"os"
	"path/filepath"
	"regexp"
	"sort"
	"strings"
)

type Clause struct {
	Text string
	Expr ast.Expr
	Pos  string
}

type LoopSpec struct {
	Invariants []*Clause
	Decreases  *Clause
}

type AssignTarget struct {
	Kind string // everything ghost heapvar loc elems map
	Name string
	Text string
	Expr ast.Expr
}

type Contract struct {
	Name       string
	ParamNames []string
	Results    []string
	Props      []string
	Requires   []*Clause
	Ensures    []*Clause
	Assigns    []*AssignTarget
	HasAssigns bool
	WriteSetFrame bool
	Pure       bool
	Trusted    bool
	TrustedWhy string
	Inline     bool
	NoReturn   bool
	Loops      map[int]*LoopSpec
	File       string
	Line       int
	Lib        bool
	Pkg        *types.Package
	Sig        *types.Signature
	RecvIface  types.Type
	Acquires   []*Clause // lock discipline (C12/C15)
	Releases   []*Clause
	Holds      []*Clause
	Thread     bool
	Extra      map[string][]*Clause
}

type Macro struct {
	Name   string
	Params []string
	Body   ast.Expr
	Text   string
}

type SpecFn struct {
	Name string
	Args []string
	Res  string
}

type GhostVar struct {
	Name string
	Sort string
}

type Lemma struct {
	Binders     [][2]string // SMT binder name, sort
	BinderNames []string    // source names
	Body        string
	Local bool // axiom for later lemmas only, not for function obligations
	Formula string // closed SMT formula (set when the lemma is generated)
	Header  string
	HeaderList []string
	Name  string
	Props []string
	Text  string
	Expr  ast.Expr
	File  string
	Line  int
}

type GlobalInv struct {
	Clause *Clause
	Pkg    *types.Package
}

type FieldClass struct {
	Key   string
	Class string // guarded_by(mu) etc.
	Arg   string
}

var funcLineRe = regexp.MustCompile(`^func\s+(.*)$`)

func parseSpecExpr(text string) (ast.Expr, error) {
	t := rewriteImpl(text)
	e, err := parser.ParseExpr(t)
	if err != nil {
		return nil, fmt.Errorf("%v in %q (rewritten %q)", err, text, t)
	}
	return e, nil
}

func (e *Engine) loadContractFile(path string, lib bool, pkg *types.Package) error {
	f, err := os.Open(path)
	if err != nil {
		return err
	}
	defer f.Close()
	type rawLine struct {
		text string
		line int
	}
	var lines []rawLine
	sc := bufio.NewScanner(f)
	sc.Buffer(make([]byte, 1<<20), 1<<20)
	n := 0
	for sc.Scan() {
		n++
		l := sc.Text()
		t := strings.TrimSpace(l)
		if strings.HasPrefix(t, "//@") {
			t = strings.TrimPrefix(t, "//@")
		} else if lib {
			if strings.HasPrefix(t, "#") || strings.HasPrefix(t, "//") {
				continue
			}
		} else {
			continue
		}
		if strings.TrimSpace(t) == "" {
			continue
		}
		tt := strings.TrimSpace(t)
		if strings.HasPrefix(tt, "|") && len(lines) > 0 {
			lines[len(lines)-1].text += " " + strings.TrimSpace(tt[1:])
			continue
		}
		lines = append(lines, rawLine{tt, n})
	}
	var cur *Contract
	var curLoop *LoopSpec
	rel := strings.TrimPrefix(path, e.repo+"/")
	mkClause := func(text string, line int) (*Clause, error) {
		ex, err := parseSpecExpr(text)
		if err != nil {
			return nil, fmt.Errorf("%s:%d: %v", rel, line, err)
		}
		return &Clause{Text: text, Expr: ex, Pos: fmt.Sprintf("%s:%d", rel, line)}, nil
	}
	for _, rl := range lines {
		word, rest := splitWord(rl.text)
		switch word {
		case "smt":
			e.smtLines = append(e.smtLines, rest)
			e.registerSpecFn(rest)
		case "define":
			m := regexp.MustCompile(`^([A-Za-z_][A-Za-z0-9_]*)\s*\(([^)]*)\)\s*=\s*(.*)$`).FindStringSubmatch(rest)
			if m == nil {
				return fmt.Errorf("%s:%d: bad define", rel, rl.line)
			}
			ex, err := parseSpecExpr(m[3])
			if err != nil {
				return fmt.Errorf("%s:%d: %v", rel, rl.line, err)
			}
			var ps []string
			for _, p := range strings.Split(m[2], ",") {
				if p = strings.TrimSpace(p); p != "" {
					ps = append(ps, p)
				}
			}
			e.macros[m[1]] = &Macro{Name: m[1], Params: ps, Body: ex, Text: m[3]}
		case "ghost":
			nm, so := splitWord(rest)
			e.ghosts[nm] = &GhostVar{Name: nm, Sort: so}
			e.ghostOrder = append(e.ghostOrder, nm)
		case "lemma":
			i := strings.Index(rest, ":")
			if i < 0 {
				return fmt.Errorf("%s:%d: bad lemma", rel, rl.line)
			}
			head := strings.Fields(rest[:i])
			lm := &Lemma{Name: head[0], Text: strings.TrimSpace(rest[i+1:]), File: rel, Line: rl.line}
			for j, h := range head[1:] {
				if h == "local" {
					lm.Local = true
				}
				if h == "props" {
					lm.Props = head[j+2:]
					break
				}
			}
			ex, err := parseSpecExpr(lm.Text)
			if err != nil {
				return fmt.Errorf("%s:%d: %v", rel, rl.line, err)
			}
			lm.Expr = ex
			e.lemmas = append(e.lemmas, lm)
		case "globalinv":
			c, err := mkClause(rest, rl.line)
			if err != nil {
				return err
			}
			e.globalInvs = append(e.globalInvs, &GlobalInv{Clause: c, Pkg: pkg})
		case "shared":
			e.sharedTypes[strings.TrimSpace(rest)] = true
		case "waitlevel":
			nm, lv := splitWord(rest)
			var n int
			fmt.Sscan(lv, &n)
			e.waitLevels[nm] = n
		case "field":
			// field pkg.Type.f class(arg)
			k, cl := splitWord(rest)
			fc := &FieldClass{Key: k, Class: cl}
			if i := strings.Index(cl, "("); i > 0 && strings.HasSuffix(cl, ")") {
				fc.Class, fc.Arg = cl[:i], cl[i+1:len(cl)-1]
			}
			e.fieldInfo[k] = fc
		case "func":
			cur = &Contract{Loops: map[int]*LoopSpec{}, File: rel, Line: rl.line, Lib: lib, Pkg: pkg, Extra: map[string][]*Clause{}}
			curLoop = nil
			spec := rest
			if i := strings.Index(spec, "->"); i >= 0 {
				for _, r := range strings.Split(spec[i+2:], ",") {
					cur.Results = append(cur.Results, strings.TrimSpace(r))
				}
				spec = strings.TrimSpace(spec[:i])
			}
			if strings.HasSuffix(spec, ")") {
				// find matching open paren
				d := 0
				for i := len(spec) - 1; i >= 0; i-- {
					if spec[i] == ')' {
						d++
					} else if spec[i] == '(' {
						d--
						if d == 0 {
							if i > 0 {
								for _, p := range strings.Split(spec[i+1:len(spec)-1], ",") {
									if p = strings.TrimSpace(p); p != "" {
										cur.ParamNames = append(cur.ParamNames, p)
									}
								}
								spec = strings.TrimSpace(spec[:i])
							}
							break
						}
					}
				}
			}
			cur.Name = spec
			if old, dup := e.contracts[cur.Name]; dup {
				return fmt.Errorf("%s:%d: duplicate contract for %s (first at %s:%d)", rel, rl.line, cur.Name, old.File, old.Line)
			}
			e.contracts[cur.Name] = cur
			if lib {
				cur.Trusted = true
				cur.TrustedWhy = "library contract"
			}
		default:
			if cur == nil {
				return fmt.Errorf("%s:%d: clause %q outside a func block", rel, rl.line, word)
			}
			switch word {
			case "props":
				cur.Props = strings.Fields(rest)
			case "requires", "ensures", "acquires", "releases", "holds":
				c, err := mkClause(rest, rl.line)
				if err != nil {
					return err
				}
				switch word {
				case "requires":
					cur.Requires = append(cur.Requires, c)
				case "ensures":
					cur.Ensures = append(cur.Ensures, c)
				case "acquires":
					cur.Acquires = append(cur.Acquires, c)
				case "releases":
					cur.Releases = append(cur.Releases, c)
				case "holds":
					cur.Holds = append(cur.Holds, c)
				}
			case "assigns":
				cur.HasAssigns = true
				if strings.TrimSpace(rest) == "writeset" {
					// the frame is what the body (transitively) stores to, computed by the write-set
					// analysis (used by thin contracts, whose frame obligations are not generated)
					cur.HasAssigns = false
					cur.WriteSetFrame = true
					continue
				}
				for _, t := range splitTop(rest, ',') {
					t = strings.TrimSpace(t)
					if t == "" || t == "nothing" {
						continue
					}
					at := &AssignTarget{Text: t}
					switch {
					case t == "everything":
						at.Kind = "everything"
					case strings.HasPrefix(t, "everything_except "):
						// everything_except pat1 pat2 ...: every heap variable whose key contains none of the patterns
						at.Kind = "except"
						at.Name = strings.TrimSpace(strings.TrimPrefix(t, "everything_except "))
					case e.ghosts[t] != nil:
						at.Kind, at.Name = "ghost", t
					case strings.HasPrefix(t, "heap:"):
						at.Kind, at.Name = "heapvar", strings.TrimPrefix(t, "heap:")
					case strings.HasSuffix(t, "[*]"):
						at.Kind = "elems"
						ex, err := parseSpecExpr(strings.TrimSuffix(t, "[*]"))
						if err != nil {
							return fmt.Errorf("%s:%d: %v", rel, rl.line, err)
						}
						at.Expr = ex
					case strings.HasPrefix(t, "map "):
						at.Kind = "map"
						ex, err := parseSpecExpr(strings.TrimPrefix(t, "map "))
						if err != nil {
							return fmt.Errorf("%s:%d: %v", rel, rl.line, err)
						}
						at.Expr = ex
					default:
						at.Kind = "loc"
						ex, err := parseSpecExpr(t)
						if err != nil {
							return fmt.Errorf("%s:%d: %v", rel, rl.line, err)
						}
						at.Expr = ex
					}
					cur.Assigns = append(cur.Assigns, at)
				}
			case "pure":
				cur.Pure = true
			case "trusted":
				cur.Trusted = true
				cur.TrustedWhy = rest
			case "inline":
				cur.Inline = true
			case "noreturn":
				cur.NoReturn = true
			case "thread":
				cur.Thread = true
			case "loop":
				var k int
				fmt.Sscanf(strings.TrimSuffix(strings.TrimSpace(rest), ":"), "%d", &k)
				curLoop = &LoopSpec{}
				cur.Loops[k] = curLoop
			case "invariant", "decreases":
				if curLoop == nil {
					return fmt.Errorf("%s:%d: %s outside loop", rel, rl.line, word)
				}
				c, err := mkClause(rest, rl.line)
				if err != nil {
					return err
				}
				if word == "invariant" {
					curLoop.Invariants = append(curLoop.Invariants, c)
				} else {
					curLoop.Decreases = c
				}
			case "end":
				cur, curLoop = nil, nil
			default:
				// extension clauses kept by name
				switch word {
				case "assume_after", "checked_conversions", "blocks", "serves", "thin", "holds_read", "before_call", "after_call", "after_assign", "at_exit", "level", "body_ensures", "body_requires":
				default:
					return fmt.Errorf("%s:%d: unknown clause %q", rel, rl.line, word)
				}
				c, err := mkClause(rest, rl.line)
				if err != nil {
					// keep raw text when it is not an expression
					c = &Clause{Text: rest, Pos: fmt.Sprintf("%s:%d", rel, rl.line)}
				}
				cur.Extra[word] = append(cur.Extra[word], c)
			}
		}
	}
	return nil
}

func splitWord(s string) (string, string) {
	s = strings.TrimSpace(s)
	i := strings.IndexAny(s, " \t")
	if i < 0 {
		return s, ""
	}
	return s[:i], strings.TrimSpace(s[i+1:])
}

func splitTop(s string, sep byte) []string {
	var res []string
	d := 0
	last := 0
	inStr := false
	for i := 0; i < len(s); i++ {
		c := s[i]
		if inStr {
			if c == '\\' {
				i++
			} else if c == '"' {
				inStr = false
			}
			continue
		}
		switch c {
		case '"':
			inStr = true
		case '(', '[', '{':
			d++
		case ')', ']', '}':
			d--
		default:
			if c == sep && d == 0 {
				res = append(res, s[last:i])
				last = i + 1
			}
		}
	}
	res = append(res, s[last:])
	return res
}

// rewriteImpl turns `a ==> b` into imp(a, b) and `a <==> b` into iff(a, b) (lowest precedence, right assoc).
func rewriteImpl(s string) string {
	var out strings.Builder
	i := 0
	for i < len(s) {
		c := s[i]
		if c == '"' {
			j := i + 1
			for j < len(s) && s[j] != '"' {
				if s[j] == '\\' {
					j++
				}
				j++
			}
			out.WriteString(s[i:min(j+1, len(s))])
			i = j + 1
			continue
		}
		if c == '(' || c == '[' {
			j := matching(s, i)
			if j < 0 {
				out.WriteString(s[i:])
				break
			}
			inner := s[i+1 : j]
			parts := splitTop(inner, ',')
			for k := range parts {
				parts[k] = rewriteImpl(parts[k])
			}
			out.WriteByte(c)
			out.WriteString(strings.Join(parts, ","))
			out.WriteByte(s[j])
			i = j + 1
			continue
		}
		out.WriteByte(c)
		i++
	}
	return rewriteTop(out.String())
}

func rewriteTop(t string) string {
	if p := indexTop(t, "<==>"); p >= 0 {
		return "iff(" + rewriteTop(t[:p]) + ", " + rewriteTop(t[p+4:]) + ")"
	}
	if p := indexTop(t, "==>"); p >= 0 {
		return "imp(" + t[:p] + ", " + rewriteTop(t[p+3:]) + ")"
	}
	return t
}

func indexTop(s, pat string) int {
	d := 0
	inStr := false
	for i := 0; i < len(s); i++ {
		c := s[i]
		if inStr {
			if c == '\\' {
				i++
			} else if c == '"' {
				inStr = false
			}
			continue
		}
		switch c {
		case '"':
			inStr = true
		case '(', '[':
			d++
		case ')', ']':
			d--
		}
		if d == 0 && strings.HasPrefix(s[i:], pat) {
			if pat == "==>" && i > 0 && s[i-1] == '<' {
				continue
			}
			return i
		}
	}
	return -1
}

func matching(s string, i int) int {
	d := 0
	inStr := false
	for j := i; j < len(s); j++ {
		c := s[j]
		if inStr {
			if c == '\\' {
				j++
			} else if c == '"' {
				inStr = false
			}
			continue
		}
		switch c {
		case '"':
			inStr = true
		case '(', '[':
			d++
		case ')', ']':
			d--
			if d == 0 {
				return j
			}
		}
	}
	return -1
}

var declFunRe = regexp.MustCompile(`^\(\s*(declare-fun|define-fun|declare-const|define-fun-rec)\s+([^\s()]+)\s*(.*)$`)

// registerSpecFn records the signature of an SMT function declared in a spec file.
func (e *Engine) registerSpecFn(line string) {
	m := declFunRe.FindStringSubmatch(strings.TrimSpace(line))
	if m == nil {
		return
	}
	kind, name, rest := m[1], m[2], strings.TrimSpace(m[3])
	sf := &SpecFn{Name: name}
	if kind == "declare-const" {
		sf.Res = strings.TrimSuffix(strings.TrimSpace(rest), ")")
		sf.Res = strings.TrimSpace(sf.Res)
		e.specFns[name] = sf
		return
	}
	// rest starts with "(" args ")" then result sort
	if !strings.HasPrefix(rest, "(") {
		return
	}
	j := matchParen(rest, 0)
	if j < 0 {
		return
	}
	argsTxt := rest[1:j]
	after := strings.TrimSpace(rest[j+1:])
	if kind == "declare-fun" {
		sf.Args = splitSexprs(argsTxt)
		sf.Res = strings.TrimSpace(strings.TrimSuffix(after, ")"))
	} else {
		// ((x Sort) (y Sort))
		for _, a := range splitSexprs(argsTxt) {
			a = strings.TrimSpace(a)
			a = strings.TrimPrefix(a, "(")
			a = strings.TrimSuffix(a, ")")
			_, so := splitWord(a)
			sf.Args = append(sf.Args, so)
		}
		// result sort is the first s-expr of after
		rs := splitSexprs(after)
		if len(rs) > 0 {
			sf.Res = rs[0]
		}
	}
	e.specFns[name] = sf
}

func matchParen(s string, i int) int {
	d := 0
	for j := i; j < len(s); j++ {
		switch s[j] {
		case '(':
			d++
		case ')':
			d--
			if d == 0 {
				return j
			}
		}
	}
	return -1
}

func splitSexprs(s string) []string {
	var res []string
	i := 0
	for i < len(s) {
		for i < len(s) && (s[i] == ' ' || s[i] == '\t') {
			i++
		}
		if i >= len(s) {
			break
		}
		if s[i] == '(' {
			j := matchParen(s, i)
			if j < 0 {
				res = append(res, s[i:])
				break
			}
			res = append(res, s[i:j+1])
			i = j + 1
		} else {
			j := i
			for j < len(s) && s[j] != ' ' && s[j] != '\t' && s[j] != ')' {
				j++
			}
			res = append(res, s[i:j])
			i = j
			if i < len(s) && s[i] == ')' {
				i++
			}
		}
	}
	return res
}

// loadAllContracts reads library specs then the contract files of /repo in package dependency order.
func (e *Engine) loadAllContracts(libDir string) error {
	libs, _ := filepath.Glob(filepath.Join(libDir, "*.spec"))
	sort.Strings(libs)
	for _, l := range libs {
		if err := e.loadContractFile(l, true, nil); err != nil {
			return err
		}
	}
	// dependency order
	seen := map[string]bool{}
	var order []*types.Package
	byPath := map[string]*types.Package{}
	files := map[string][]string{}
	for _, p := range e.pkgs {
		byPath[p.PkgPath] = p.Types
		for _, f := range p.GoFiles {
			if strings.HasSuffix(f, "_contracts_verif.go") || strings.Contains(filepath.Base(f), "zz_contracts") {
				files[p.PkgPath] = append(files[p.PkgPath], f)
			}
		}
	}
	var visit func(p *types.Package)
	visit = func(p *types.Package) {
		if seen[p.Path()] {
			return
		}
		seen[p.Path()] = true
		for _, imp := range p.Imports() {
			if _, ok := byPath[imp.Path()]; ok {
				visit(imp)
			}
		}
		order = append(order, p)
	}
	var paths []string
	for p := range byPath {
		paths = append(paths, p)
	}
	sort.Strings(paths)
	for _, p := range paths {
		visit(byPath[p])
	}
	for _, p := range order {
		fs := files[p.Path()]
		sort.Strings(fs)
		for _, f := range fs {
			if err := e.loadContractFile(f, false, p); err != nil {
				return err
			}
		}
	}
	return e.bindContracts()
}

// bindContracts resolves each contract to its function (signature, parameter names).
func (e *Engine) bindContracts() error {
	var missing []string
	for name, c := range e.contracts {
		if fn, ok := e.allFuncs[name]; ok {
			c.Sig = fn.Signature
			if len(c.ParamNames) == 0 {
				for _, p := range fn.Params {
					c.ParamNames = append(c.ParamNames, p.Name())
				}
			}
			if c.Pkg == nil && fn.Pkg != nil {
				c.Pkg = fn.Pkg.Pkg
			}
			if len(c.Results) == 0 {
				rs := fn.Signature.Results()
				for i := 0; i < rs.Len(); i++ {
					if n := rs.At(i).Name(); n != "" && n != "_" {
						c.Results = append(c.Results, n)
					} else {
						c.Results = append(c.Results, fmt.Sprintf("res%d", i))
					}
				}
			}
			continue
		}
		if i := strings.Index(name, "["); i > 0 && strings.HasSuffix(name, "]") {
			if fn, ok := e.allFuncs[name[:i]]; ok {
				c.Sig = fn.Signature
				if len(c.ParamNames) == 0 {
					for _, p := range fn.Params {
						c.ParamNames = append(c.ParamNames, p.Name())
					}
				}
				continue
			}
		}
		if strings.HasPrefix(name, "dyn:") {
			parts := strings.SplitN(strings.TrimPrefix(name, "dyn:"), ".", 2)
			if len(parts) == 2 {
				if t := e.lookupNamedType(nil, parts[0], parts[1]); t != nil {
					if sg, ok := t.Underlying().(*types.Signature); ok {
						c.Sig = sg
						continue
					}
				}
			}
		}
		// interface method: (pkg.Iface).Method
		if m := regexp.MustCompile(`^\(([A-Za-z0-9_/]+)\.([A-Za-z0-9_]+)\)\.([A-Za-z0-9_]+)$`).FindStringSubmatch(name); m != nil {
			t := e.lookupNamedType(nil, m[1], m[2])
			if t != nil {
				if it, ok := t.Underlying().(*types.Interface); ok {
					for i := 0; i < it.NumMethods(); i++ {
						if it.Method(i).Name() == m[3] {
							c.Sig = it.Method(i).Type().(*types.Signature)
							c.RecvIface = t
						}
					}
				}
			}
			if c.Sig != nil {
				continue
			}
		}
		if !c.Lib {
			missing = append(missing, fmt.Sprintf("%s (%s:%d)", name, c.File, c.Line))
		}
	}
	// a contract whose function no longer exists is reported as a failed result of that name (the
	// code changed under the contract); the other functions are still verified
	sort.Strings(missing)
	e.missingContracts = missing
	return nil
}
