package main

// Mapping of Go types to SMT sorts, zero values, type invariants.

import (
	"fmt"
	"regexp"
	"go/types"
	"strings"
)

const (
	sortInt   = "Int"
	sortBool  = "Bool"
	sortStr   = "Str"
	sortSlice = "Slice"
	sortIface = "Iface"
	sortFloat = "Float"
)

type Sorts struct {
	sc       *Script
	eng      *Engine
	structs  map[string]*structInfo // by sort name
	bySort   map[string]types.Type
	boxes    map[string]bool
	tagOf    map[string]int
}

type structInfo struct {
	sortName string
	st       *types.Struct
	named    string
	fields   []string // selector names
	fsorts   []string
}

func newSorts(sc *Script, eng *Engine) *Sorts {
	return &Sorts{sc: sc, eng: eng, structs: map[string]*structInfo{}, bySort: map[string]types.Type{}, boxes: map[string]bool{}, tagOf: map[string]int{}}
}

var aliasRe = regexp.MustCompile(`\b(byte|rune)\b`)

// typeName: canonical short name of a type (byte and rune are aliases: []byte and []uint8 are one type).
func (e *Engine) typeName(t types.Type) string {
	s := e.shorten(types.TypeString(t, nil))
	return aliasRe.ReplaceAllStringFunc(s, func(m string) string {
		if m == "byte" {
			return "uint8"
		}
		return "int32"
	})
}

// SortOf returns the SMT sort of a Go type, declaring datatypes on demand.
func (s *Sorts) SortOf(t types.Type) string {
	t = types.Unalias(t)
	switch u := t.Underlying().(type) {
	case *types.Basic:
		switch {
		case u.Info()&types.IsBoolean != 0:
			return sortBool
		case u.Info()&types.IsInteger != 0:
			return sortInt
		case u.Info()&types.IsString != 0:
			return sortStr
		case u.Info()&types.IsFloat != 0:
			return sortFloat
		case u.Kind() == types.UnsafePointer:
			return sortInt
		case u.Kind() == types.UntypedNil:
			return sortInt
		}
		return sortInt
	case *types.Pointer, *types.Map, *types.Chan, *types.Signature:
		return sortInt
	case *types.Slice:
		return sortSlice
	case *types.Interface:
		return sortIface
	case *types.Struct:
		return s.structSort(t, u)
	case *types.Array:
		es := s.SortOf(u.Elem())
		return fmt.Sprintf("(Array Int %s)", es)
	case *types.Tuple:
		return "Tuple"
	}
	return sortInt
}

func (s *Sorts) structSort(t types.Type, u *types.Struct) string {
	name := "S_" + sanitize(s.eng.typeName(t))
	if _, ok := s.structs[name]; ok {
		return name
	}
	info := &structInfo{sortName: name, st: u, named: s.eng.typeName(t)}
	s.structs[name] = info // before recursion (pointers are Int so no real recursion)
	var fl []string
	for i := 0; i < u.NumFields(); i++ {
		f := u.Field(i)
		fs := s.SortOf(f.Type())
		sel := fmt.Sprintf("%s.%s", name, sanitize(f.Name()))
		if f.Name() == "_" {
			sel = fmt.Sprintf("%s._%d", name, i)
		}
		info.fields = append(info.fields, sel)
		info.fsorts = append(info.fsorts, fs)
		fl = append(fl, fmt.Sprintf("(%s %s)", sel, fs))
	}
	if len(fl) == 0 {
		s.sc.Header("sort:"+name, fmt.Sprintf("(declare-datatypes ((%s 0)) (((mk_%s))))", name, name))
	} else {
		s.sc.Header("sort:"+name, fmt.Sprintf("(declare-datatypes ((%s 0)) (((mk_%s %s))))", name, name, strings.Join(fl, " ")))
	}
	s.bySort[name] = t
	return name
}

func (s *Sorts) structInfoOf(t types.Type) *structInfo {
	name := s.SortOf(t)
	return s.structs[name]
}

// Zero value term of a Go type.
func (s *Sorts) Zero(t types.Type) string {
	t = types.Unalias(t)
	switch u := t.Underlying().(type) {
	case *types.Basic:
		switch {
		case u.Info()&types.IsBoolean != 0:
			return "false"
		case u.Info()&types.IsInteger != 0:
			return "0"
		case u.Info()&types.IsString != 0:
			return "str_empty"
		case u.Info()&types.IsFloat != 0:
			return "float_zero"
		}
		return "0"
	case *types.Pointer, *types.Map, *types.Chan, *types.Signature:
		return "0"
	case *types.Slice:
		return "slice_nil"
	case *types.Interface:
		return "iface_nil"
	case *types.Struct:
		info := s.structInfoOf(t)
		if u.NumFields() == 0 {
			return "mk_" + info.sortName
		}
		var args []string
		for i := 0; i < u.NumFields(); i++ {
			args = append(args, s.Zero(u.Field(i).Type()))
		}
		return app("mk_"+info.sortName, args...)
	case *types.Array:
		return s.ZeroArr(u.Elem())
	}
	return "0"
}

func intRange(b *types.Basic) (lo, hi string, ok bool) {
	switch b.Kind() {
	case types.Int, types.Int64:
		return "(- 9223372036854775808)", "9223372036854775807", true
	case types.Int32:
		return "(- 2147483648)", "2147483647", true
	case types.Int16:
		return "(- 32768)", "32767", true
	case types.Int8:
		return "(- 128)", "127", true
	case types.Uint, types.Uint64, types.Uintptr:
		return "0", "18446744073709551615", true
	case types.Uint32:
		return "0", "4294967295", true
	case types.Uint16:
		return "0", "65535", true
	case types.Uint8:
		return "0", "255", true
	}
	return "", "", false
}

func intBits(b *types.Basic) (bits int, signed bool) {
	switch b.Kind() {
	case types.Int, types.Int64:
		return 64, true
	case types.Int32:
		return 32, true
	case types.Int16:
		return 16, true
	case types.Int8:
		return 8, true
	case types.Uint, types.Uint64, types.Uintptr:
		return 64, false
	case types.Uint32:
		return 32, false
	case types.Uint16:
		return 16, false
	case types.Uint8:
		return 8, false
	}
	return 64, true
}

func pow2(n int) string {
	switch n {
	case 8:
		return "256"
	case 16:
		return "65536"
	case 32:
		return "4294967296"
	case 64:
		return "18446744073709551616"
	case 7:
		return "128"
	case 15:
		return "32768"
	case 31:
		return "2147483648"
	case 63:
		return "9223372036854775808"
	}
	panic("pow2")
}

// TypeInv is the invariant every value of Go type t satisfies (used when a value is read from
// the heap, received as a parameter or produced by havoc).
func (s *Sorts) TypeInv(t types.Type, v string, alloc string) string {
	t = types.Unalias(t)
	switch u := t.Underlying().(type) {
	case *types.Basic:
		if u.Info()&types.IsInteger != 0 {
			if lo, hi, ok := intRange(u); ok {
				return and(app("<=", lo, v), app("<=", v, hi))
			}
		}
		return "true"
	case *types.Chan:
		// a channel object has one element type: channels of different types are different objects
		ty := fmt.Sprintf("(=> (not (= %s 0)) (= (chan_ty %s) %d))", v, v, chanTyId(s.eng.typeName(types.NewChan(types.SendRecv, u.Elem()))))
		if alloc != "" {
			return and(app("<=", "0", v), app("<", v, alloc), ty)
		}
		return and(app("<=", "0", v), ty)
	case *types.Pointer, *types.Map:
		if alloc != "" {
			return and(app("<=", "0", v), app("<", v, alloc))
		}
		return app("<=", "0", v)
	case *types.Slice:
		c := []string{app("slice_ok", v)}
		if alloc != "" {
			c = append(c, app("<", app("arr", v), alloc))
		}
		return and(c...)
	case *types.Struct:
		info := s.structInfoOf(t)
		var cs []string
		for i := 0; i < u.NumFields(); i++ {
			cs = append(cs, s.TypeInv(u.Field(i).Type(), app(info.fields[i], v), alloc))
		}
		return and(cs...)
	}
	return "true"
}

// ZeroArr: an array whose every element is the zero value of t (a declared constant with a
// defining axiom: cvc5 accepts `as const` only for literal values).
func (s *Sorts) ZeroArr(t types.Type) string {
	es := s.SortOf(t)
	name := "zeroarr_" + sanitize(es)
	s.sc.Header("zeroarr:"+name, fmt.Sprintf("(declare-const %s (Array Int %s))\n(assert (forall ((i Int)) (! (= (select %s i) %s) :pattern ((select %s i)))))", name, es, name, s.Zero(t), name))
	return name
}

// Box / unbox for interface values.
func (s *Sorts) Box(t types.Type, v string) string {
	name := s.boxName(t)
	return app("box_"+name, v)
}

func (s *Sorts) Unbox(t types.Type, v string) string {
	name := s.boxName(t)
	return app("unbox_"+name, v)
}

func (s *Sorts) Tag(t types.Type) string {
	name := s.boxName(t)
	return fmt.Sprintf("%d", s.tagOf[name])
}

func (s *Sorts) boxName(t types.Type) string {
	t = types.Unalias(t)
	name := sanitize(s.eng.typeName(t))
	if s.boxes[name] {
		return name
	}
	s.boxes[name] = true
	// stable tag from the name (not from declaration order)
	h := 7
	for _, c := range name {
		h = (h*31 + int(c)) % 1000003
	}
	h += 10
	s.tagOf[name] = h
	so := s.SortOf(t)
	s.sc.Header("box:"+name, fmt.Sprintf("(declare-fun box_%s (%s) Iface)\n(declare-fun unbox_%s (Iface) %s)\n(assert (forall ((x %s)) (! (and (= (unbox_%s (box_%s x)) x) (= (iface_tag (box_%s x)) %d)) :pattern ((box_%s x)))))",
		name, so, name, so, so, name, name, name, h, name))
	return name
}

func chanTyId(name string) int {
	h := 0
	for _, c := range name {
		h = (h*131 + int(c)) % 1000003
	}
	return h
}
