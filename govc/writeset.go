package main

// Write-set analysis for calls to functions without a contract: instead of havocking every heap
// variable, havoc only what the callee (and its static callees in the repository) can store to.
// Sound for static calls; interface and function-value calls made by the callee are assumed not to
// store to engine struct fields or slices of engine types (logger, hashers, heap.Interface
// implementations and sort comparators are the dynamic calls that occur; they are checked or
// trusted separately). This assumption is listed in the evidence.

import (
	"go/types"
	"strings"

	"golang.org/x/tools/go/ssa"
)

type writeSet struct {
	keys map[string]bool // heap keys ("F|T.f", "A|T", "B|T", "MD|..."), "S|T" = all fields of struct T
	all  bool
}

func (e *Engine) writeSetOf(fc *FnCtx, fn *ssa.Function) *writeSet {
	if e.wsCache == nil {
		e.wsCache = map[*ssa.Function]*writeSet{}
	}
	if ws, ok := e.wsCache[fn]; ok {
		return ws
	}
	ws := &writeSet{keys: map[string]bool{}}
	e.wsCache[fn] = ws // cycles: the fixpoint below is conservative enough (second pass)
	for pass := 0; pass < 2; pass++ {
		e.collectWrites(fc, fn, ws, map[*ssa.Function]bool{})
	}
	return ws
}

func (e *Engine) collectWrites(fc *FnCtx, fn *ssa.Function, ws *writeSet, seen map[*ssa.Function]bool) {
	if seen[fn] || ws.all {
		return
	}
	seen[fn] = true
	if len(fn.Blocks) == 0 || !e.isRepoFunc(fn) {
		// external function: may write through pointer / slice / map arguments
		e.libWrites(fc, fn.Signature, ws)
		return
	}
	// ghost variables assigned by point clauses of this function's own contract
	if con := e.contracts[e.fnName(fn)]; con != nil {
		for _, kind := range []string{"before_call", "after_call", "after_assign", "at_exit"} {
			for _, c := range con.Extra[kind] {
				if i := strings.Index(c.Text, ": ghost "); i >= 0 {
					rest := c.Text[i+len(": ghost "):]
					if j := strings.Index(rest, "="); j > 0 {
						if n := strings.TrimSpace(rest[:j]); e.ghosts[n] != nil {
							ws.keys[fc.ghostKey(n)] = true
						}
					}
				}
			}
		}
	}
	var rootKey func(v ssa.Value) string
	rootKey = func(v ssa.Value) string {
		switch x := v.(type) {
		case *ssa.Alloc:
			el := x.Type().(*types.Pointer).Elem()
			if !x.Heap {
				return ""
			}
			switch u := el.Underlying().(type) {
			case *types.Struct:
				return "" // a fresh object of the callee: invisible to the caller
			case *types.Array:
				_ = u
				return ""
			}
			return ""
		case *ssa.FieldAddr:
			pt := x.X.Type().Underlying().(*types.Pointer).Elem()
			switch y := x.X.(type) {
			case *ssa.FieldAddr, *ssa.IndexAddr:
				return rootKey(x.X)
			case *ssa.Alloc:
				_ = y
				return ""
			}
			return fc.fieldKey(pt, x.Field)
		case *ssa.IndexAddr:
			switch t := x.X.Type().Underlying().(type) {
			case *types.Slice:
				return fc.elemKey(t.Elem())
			case *types.Pointer:
				if _, isAlloc := x.X.(*ssa.Alloc); isAlloc {
					return ""
				}
				return fc.elemKey(t.Elem().Underlying().(*types.Array).Elem())
			}
		case *ssa.Global:
			return fc.globalKey(x)
		}
		if pt, ok := v.Type().Underlying().(*types.Pointer); ok {
			el := pt.Elem()
			if _, ok := el.Underlying().(*types.Struct); ok {
				return "S|" + e.typeName(el)
			}
			return fc.boxKey(el)
		}
		return "*"
	}
	for _, b := range fn.Blocks {
		for _, in := range b.Instrs {
			switch x := in.(type) {
			case *ssa.Store:
				k := rootKey(x.Addr)
				if k == "*" {
					ws.all = true
				} else if k != "" {
					ws.keys[k] = true
				}
			case *ssa.MapUpdate:
				m := x.Map.Type().Underlying().(*types.Map)
				d, v, l := fc.mapKeys(m)
				ws.keys[d], ws.keys[v], ws.keys[l] = true, true, true
			case ssa.CallInstruction:
				c := x.Common()
				if bi, ok := c.Value.(*ssa.Builtin); ok {
					switch bi.Name() {
					case "append":
						if sl, ok := c.Args[0].Type().Underlying().(*types.Slice); ok {
							ws.keys[fc.elemKey(sl.Elem())] = true
						}
					case "delete":
						m := c.Args[0].Type().Underlying().(*types.Map)
						d, v, l := fc.mapKeys(m)
						ws.keys[d], ws.keys[v], ws.keys[l] = true, true, true
					case "copy":
						if sl, ok := c.Args[0].Type().Underlying().(*types.Slice); ok {
							ws.keys[fc.elemKey(sl.Elem())] = true
						}
					}
					continue
				}
				if callee := c.StaticCallee(); callee != nil {
					// a contract's frame takes precedence over the body
					if con := e.contracts[e.fnName(callee)]; con != nil && con.HasAssigns && !con.Inline {
						ks, all := fc.calleeFrameKeys(c)
						if all {
							ws.all = true
						}
						for _, k := range ks {
							ws.keys[k] = true
						}
						continue
					}
					e.collectWrites(fc, callee, ws, seen)
					continue
				}
				if mc, ok := c.Value.(*ssa.MakeClosure); ok {
					e.collectWrites(fc, mc.Fn.(*ssa.Function), ws, seen)
					continue
				}
				// interface / function-value call: writes through its arguments only (see file comment)
				e.libWrites(fc, c.Signature(), ws)
			case *ssa.Send:
				// no heap effect in the model
			}
		}
	}
}

// libWrites: an external function may store through the pointers, slices and maps it is given.
func (e *Engine) libWrites(fc *FnCtx, sig *types.Signature, ws *writeSet) {
	add := func(t types.Type) {
		switch u := t.Underlying().(type) {
		case *types.Pointer:
			el := u.Elem()
			if _, ok := el.Underlying().(*types.Struct); ok {
				// library struct: its fields are not modelled unless the repository reads them
				if strings.HasPrefix(e.typeName(el), "originium.") || strings.Contains(e.typeName(el), "table.") || strings.Contains(e.typeName(el), "types.") {
					ws.keys["S|"+e.typeName(el)] = true
				}
				return
			}
			ws.keys[fc.boxKey(el)] = true
		case *types.Slice:
			ws.keys[fc.elemKey(u.Elem())] = true
		case *types.Map:
			d, v, l := fc.mapKeys(u)
			ws.keys[d], ws.keys[v], ws.keys[l] = true, true, true
		case *types.Interface:
			// e.g. `any` carrying a pointer (binary.Read(..., &x)): boxes of basic types and byte slices
			for _, bt := range []types.Type{types.Typ[types.Uint8], types.Typ[types.Uint16], types.Typ[types.Uint32], types.Typ[types.Uint64], types.Typ[types.Int64]} {
				ws.keys[fc.boxKey(bt)] = true
			}
			ws.keys[fc.elemKey(types.Typ[types.Uint8])] = true
			ws.keys[fc.boxKey(types.NewSlice(types.Typ[types.Uint8]))] = true
		}
	}
	if sig.Recv() != nil {
		add(sig.Recv().Type())
	}
	for i := 0; i < sig.Params().Len(); i++ {
		add(sig.Params().At(i).Type())
	}
}

// havocWrites applies a write set to the state.
func (fc *FnCtx) havocWrites(st *State, ws *writeSet) {
	if ws.all {
		fc.havocAll(st)
		return
	}
	done := map[string]bool{}
	var ghostsToo bool
	for k := range ws.keys {
		if strings.HasPrefix(k, "S|") {
			for _, hk := range fc.hvOrder {
				if strings.HasPrefix(hk, "F|"+k[2:]+".") {
					done[hk] = true
				}
			}
			continue
		}
		if strings.HasPrefix(k, "X|") {
			ghostsToo = true
		}
		done[k] = true
	}
	_ = ghostsToo
	saved := fc.hvOrder
	var sub []string
	for _, k := range saved {
		if done[k] {
			sub = append(sub, k)
		}
	}
	fc.hvOrder = sub
	np := len(st.pending)
	fc.havocAll(st)
	st.pending = st.pending[:np] // not a havoc of everything: only the keys of the write set
	fc.hvOrder = saved
	for k := range ws.keys {
		if _, declared := fc.hv[k]; declared {
			continue
		}
		if strings.HasPrefix(k, "S|") {
			st.pending = append(st.pending, pendHavoc{"pat", "F|" + k[2:] + ".*", len(fc.hvOrder)})
		} else {
			st.pending = append(st.pending, pendHavoc{"pat", k, len(fc.hvOrder)})
		}
	}
}
