package main

// Wait levels (C15): every blocking operation has a name and a declared level
//
//   waitlevel lock:originium.DB.mu 30          a mutex field
//   waitlevel send:originium.DB.flushC 20      a send on a channel field (recv: likewise)
//   waitlevel wait:commitMark 5                a named wait inside a contracted callee (`blocks wait:commitMark`)
//
// and the rule of Leino/Müller/Smans-style deadlock prevention is checked at every blocking
// operation of every function: each lock the activation holds, and each wait object the activation
// *serves* (`serves NAME` in its contract: other goroutines block on NAME until this activation makes
// progress), has a level strictly below the level of the operation. Consequence: the waits-for
// graph is acyclic, so no set of goroutines can be blocked on each other for ever.
//
// Blocking operations inside callees are found by a transitive summary over static calls (blocksOf);
// a callee with a `blocks NAME...` contract clause is summarised by that clause.

import (
	"fmt"
	"go/token"
	"go/types"
	"sort"
	"strings"

	"golang.org/x/tools/go/ssa"
)

type blockSet map[string]token.Pos

// waitName: the declared name of the object a blocking operation waits on.
func (e *Engine) waitName(kind string, v ssa.Value) string {
	for {
		switch x := v.(type) {
		case *ssa.UnOp:
			if x.Op == token.MUL {
				v = x.X
				continue
			}
		case *ssa.FieldAddr:
			st := x.X.Type().Underlying().(*types.Pointer).Elem()
			f := st.Underlying().(*types.Struct).Field(x.Field)
			name := f.Name()
			// embedded mutex of an embedded struct: o.Mutex
			return kind + ":" + e.typeName(st) + "." + name
		case *ssa.Field:
			st := x.X.Type()
			f := st.Underlying().(*types.Struct).Field(x.Field)
			return kind + ":" + e.typeName(st) + "." + f.Name()
		case *ssa.Global:
			return kind + ":global." + x.Pkg.Pkg.Name() + "." + x.Name()
		case *ssa.Alloc:
			return kind + ":local." + x.Comment
		case *ssa.MakeChan:
			return kind + ":local.chan"
		case *ssa.Call:
			if f := x.Call.StaticCallee(); f != nil {
				return kind + ":result." + e.fnName(f)
			}
			if x.Call.IsInvoke() {
				return kind + ":result." + x.Call.Method.Name()
			}
		case *ssa.Parameter:
			return kind + ":param." + x.Name()
		}
		return kind + ":?"
	}
}

func (e *Engine) blocksOf(fn *ssa.Function) blockSet {
	if e.blockCache == nil {
		e.blockCache = map[*ssa.Function]blockSet{}
	}
	if bs, ok := e.blockCache[fn]; ok {
		return bs
	}
	bs := blockSet{}
	e.blockCache[fn] = bs // recursion guard: a cycle contributes what has been found so far
	if c := e.contracts[e.fnName(fn)]; c != nil && len(c.Extra["blocks"]) > 0 {
		for _, cl := range c.Extra["blocks"] {
			for _, w := range strings.Fields(cl.Text) {
				bs[w] = fn.Pos()
			}
		}
		return bs
	}
	for _, b := range fn.Blocks {
		for _, in := range b.Instrs {
			for w, p := range e.blocksOfInstr(in) {
				if _, ok := bs[w]; !ok {
					bs[w] = p
				}
			}
		}
	}
	return bs
}

// blocksOfInstr: the wait objects one instruction may block on (calls: transitively).
func (e *Engine) blocksOfInstr(in ssa.Instruction) blockSet {
	bs := blockSet{}
	switch x := in.(type) {
	case *ssa.Send:
		bs[e.waitName("send", x.Chan)] = x.Pos()
	case *ssa.UnOp:
		if x.Op == token.ARROW {
			bs[e.waitName("recv", x.X)] = x.Pos()
		}
	case *ssa.Select:
		if x.Blocking {
			for _, s := range x.States {
				k := "recv"
				if s.Dir == types.SendOnly {
					k = "send"
				}
				bs[e.waitName(k, s.Chan)] = x.Pos()
			}
		}
	case *ssa.Go:
		// the spawned goroutine is a different activation
	case ssa.CallInstruction:
		c := x.Common()
		f := c.StaticCallee()
		if f == nil {
			if mc, ok := c.Value.(*ssa.MakeClosure); ok {
				f = mc.Fn.(*ssa.Function)
			}
		}
		if f == nil {
			return bs
		}
		n := e.fnName(f)
		switch lockMethods[n] {
		case "lock", "rlock":
			bs[e.waitName("lock", c.Args[0])] = in.Pos()
			return bs
		case "unlock", "runlock":
			return bs
		}
		if n == "(*sync.WaitGroup).Wait" {
			bs[e.waitName("wait", c.Args[0])] = in.Pos()
			return bs
		}
		if !e.isRepoFunc(f) {
			if con := e.contracts[n]; con != nil {
				for _, cl := range con.Extra["blocks"] {
					for _, w := range strings.Fields(cl.Text) {
						bs[w] = in.Pos()
					}
				}
			}
			return bs
		}
		for w := range e.blocksOf(f) {
			bs[w] = in.Pos()
		}
	}
	return bs
}

// servedBy: wait objects the activation serves (contract clause `serves NAME...`).
func servedBy(con *Contract) []string {
	var res []string
	if con == nil {
		return nil
	}
	for _, cl := range con.Extra["serves"] {
		res = append(res, strings.Fields(cl.Text)...)
	}
	return res
}

// waitCheckInstr: obligations for one instruction in wait-level mode.
func (fc *FnCtx) waitCheckInstr(st *State, in ssa.Instruction) {
	if !fc.eng.lockMode || len(fc.eng.waitLevels) == 0 {
		return
	}
	bs := fc.eng.blocksOfInstr(in)
	if len(bs) == 0 {
		return
	}
	var names []string
	for w := range bs {
		names = append(names, w)
	}
	sort.Strings(names)
	// a select that includes a receive on a channel this activation serves is the serving step itself
	if sel, ok := in.(*ssa.Select); ok {
		for _, s := range sel.States {
			k := "send" // the senders are the ones being served by a receive
			if s.Dir == types.SendOnly {
				k = "recv"
			}
			nm := fc.eng.waitName(k, s.Chan)
			for _, sv := range fc.serves {
				if sv == nm {
					return
				}
			}
		}
	}
	if u, ok := in.(*ssa.UnOp); ok && u.Op == token.ARROW {
		nm := fc.eng.waitName("send", u.X)
		for _, sv := range fc.serves {
			if sv == nm {
				return
			}
		}
	}
	for _, w := range names {
		fc.waitLevelOf(st, w, in.Pos())
	}
}

func (fc *FnCtx) waitLevelOf(st *State, what string, pos token.Pos) {
	lv, ok := fc.eng.waitLevels[what]
	if !ok {
		if strings.Contains(what, ":local.") {
			return // a channel private to the activation (no other lock holder can be waiting on it)
		}
		fc.oblige(st, "waitlevel.undeclared", "false", pos, "blocking operation "+what+" has no declared wait level")
		return
	}
	for _, hs := range st.held {
		h := parseHeld(hs)
		hn := "lock:" + h.owner + "." + h.field
		hl, ok := fc.eng.waitLevels[hn]
		if !ok {
			fc.oblige(st, "waitlevel.undeclared", "false", pos, "held lock "+hn+" has no declared wait level")
			continue
		}
		if hl >= lv {
			fc.oblige(st, "waitlevel", "false", pos, fmt.Sprintf("%s (level %d) while holding %s (level %d): order violated", what, lv, hn, hl))
		}
	}
	for _, sv := range fc.serves {
		sl, ok := fc.eng.waitLevels[sv]
		if !ok {
			fc.oblige(st, "waitlevel.undeclared", "false", pos, "served object "+sv+" has no declared wait level")
			continue
		}
		if sl >= lv {
			fc.oblige(st, "waitlevel", "false", pos, fmt.Sprintf("%s (level %d) while serving %s (level %d): the goroutines waiting on %s could wait for ever", what, lv, sv, sl, sv))
		}
	}
	// a passing check is recorded as an obligation too, so the evidence counts what was checked
	fc.oblige(st, "waitlevel.ok", "(= 0 0)", pos, what+" is above every lock held and every object served")
}
