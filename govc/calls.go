package main

import (
	"fmt"
	"go/token"
	"go/types"
	"strings"

	"golang.org/x/tools/go/ssa"
)

func (fc *FnCtx) execCall(fr *frame, st *State, c *ssa.CallCommon, instr ssa.Value, pos token.Pos) (Val, bool) {
	var args []Val
	for _, a := range c.Args {
		args = append(args, fc.val(a))
	}
	return fc.execCallWith(fr, st, c, fc.val(c.Value), args, instr, pos)
}

// calleeName gives the contract key(s) for a call.
func (fc *FnCtx) calleeKeys(c *ssa.CallCommon, fnv Val) (keys []string, callee *ssa.Function) {
	if c.IsInvoke() {
		recvT := fc.eng.typeName(c.Value.Type())
		keys = append(keys, "("+recvT+")."+c.Method.Name())
		keys = append(keys, fc.eng.shorten(c.Method.FullName()))
		return
	}
	if f := c.StaticCallee(); f != nil {
		callee = f
	} else if fnv.Clo != nil {
		callee = fnv.Clo.fn
	} else {
		// call of a function value: contract by the (named) function type
		keys = append(keys, "dyn:"+fc.eng.typeName(c.Value.Type()))
	}
	if callee != nil {
		n := fc.eng.fnName(callee)
		// a contract specialised to the dynamic type of the first (interface) argument:
		// heap.Push[*watermark.lowHeap]
		if len(c.Args) > 0 {
			if mi, ok := c.Args[0].(*ssa.MakeInterface); ok {
				keys = append(keys, "@"+n+"["+fc.eng.typeName(mi.X.Type())+"]")
			}
		}
		keys = append(keys, n)
		if o := callee.Origin(); o != nil {
			keys = append(keys, fc.eng.fnName(o))
		}
	}
	return
}

func (fc *FnCtx) findContract(keys []string) *Contract {
	for _, k := range keys {
		if c, ok := fc.eng.contracts[strings.TrimPrefix(k, "@")]; ok {
			return c
		}
	}
	return nil
}

func (fc *FnCtx) execCallWith(fr *frame, st *State, c *ssa.CallCommon, fnv Val, args []Val, instr ssa.Value, pos token.Pos) (Val, bool) {
	anchor := fc.callAnchor(c, fnv)
	saveArgs := fc.curArgs
	fc.curArgs = append(append([]Val(nil), args...), fnv)
	defer func() { fc.curArgs = saveArgs }()
	// the actual arguments of the call are visible to the point clauses as arg0, arg1, ...
	// (for a static method call arg0 is the receiver)
	argVars := map[string]Val{}
	for i, a := range args {
		argVars[fmt.Sprintf("arg%d", i)] = a
	}
	// locals named in the point clauses are resolved as they are in scope at the call (a function may
	// declare several locals of one name: one per loop)
	saveBlk := fc.curBlk
	if in, ok := instr.(ssa.Instruction); ok && in != nil && in.Block() != nil {
		fc.curBlk = in.Block()
	}
	defer func() { fc.curBlk = saveBlk }()
	fc.pointClausesV(st, "before_call", anchor, pos, argVars)
	v, ok := fc.execCallWith1(fr, st, c, fnv, args, instr, pos)
	if ok {
		vars := copyVars(argVars)
		if v.T != "" {
			vars["result"] = v
		}
		for i, t := range v.Tuple {
			vars[fmt.Sprintf("result%d", i)] = t
		}
		fc.pointClausesV(st, "after_call", anchor, pos, vars)
	}
	return v, ok
}

// callAnchor names a call site: "<callee short name>#<k>", k-th call of that callee in the function
// being executed (static instruction order). Contracts attach ghost updates and assertions to it.
func (fc *FnCtx) callAnchor(c *ssa.CallCommon, fnv Val) string {
	if fc.anchors == nil {
		fc.anchors = map[*ssa.CallCommon]string{}
	}
	if a, ok := fc.anchors[c]; ok {
		return a
	}
	fn := fc.curFn
	count := map[string]int{}
	for _, b := range fn.Blocks {
		for _, in := range b.Instrs {
			ci, ok := in.(ssa.CallInstruction)
			if !ok {
				continue
			}
			cc := ci.Common()
			name := ""
			if bi, ok := cc.Value.(*ssa.Builtin); ok {
				name = bi.Name()
			} else {
				ks, _ := fc.calleeKeys(cc, Val{})
				for len(ks) > 0 && strings.HasPrefix(ks[0], "@") {
					ks = ks[1:] // specialised contract keys do not name the call site
				}
				if len(ks) > 0 {
					name = ks[0]
				} else {
					name = "dynamic"
				}
			}
			fc.anchors[cc] = fmt.Sprintf("%s#%d", name, count[name])
			if fn == fc.fn {
				fc.note("anchor %s#%d at %s", name, count[name], fc.eng.pos(in.Pos()))
			}
			count[name]++
		}
	}
	return fc.anchors[c]
}

// callAnchorIn computes the anchor of a call inside fn (which may differ from the function being executed).
func (fc *FnCtx) callAnchorIn(fn *ssa.Function, c *ssa.CallCommon) string {
	save := fc.curFn
	fc.curFn = fn
	defer func() { fc.curFn = save }()
	return fc.callAnchor(c, Val{})
}

// anchorGhosts lists the ghost variables assigned by clauses at an anchor of the current function.
func (fc *FnCtx) anchorGhosts(anchor string) []string { return fc.anchorGhostsFn(fc.curFn, anchor) }

func (fc *FnCtx) anchorGhostsFn(fn *ssa.Function, anchor string) []string {
	con := fc.eng.contracts[fc.eng.fnName(fn)]
	if con == nil || anchor == "" {
		return nil
	}
	var res []string
	for _, kind := range []string{"before_call", "after_call", "after_assign"} {
		for _, c := range con.Extra[kind] {
			if !strings.HasPrefix(c.Text, anchor+":") {
				continue
			}
			if (kind == "after_assign") != strings.HasPrefix(anchor, "assign ") {
				continue
			}
			stmt := strings.TrimSpace(c.Text[len(anchor)+1:])
			w, rest := splitWord(stmt)
			if w == "ghost" {
				if i := strings.Index(rest, "="); i > 0 {
					n := strings.TrimSpace(rest[:i])
					if fc.eng.ghosts[n] != nil {
						res = append(res, n)
					}
				}
			}
		}
	}
	return res
}

// pointClauses executes the `before_call` / `after_call` clauses attached to a call site:
//   ghost X = E      assignment to a ghost variable
//   assert E         obligation, then assumed
//   assume E         unproved fact (listed in the evidence)
func (fc *FnCtx) pointClauses(st *State, kind, anchor string, pos token.Pos) {
	fc.pointClausesV(st, kind, anchor, pos, nil)
}

func (fc *FnCtx) pointClausesV(st *State, kind, anchor string, pos token.Pos, vars map[string]Val) {
	con := fc.eng.contracts[fc.eng.fnName(fc.curFn)]
	if con == nil || anchor == "" {
		return
	}
	for _, c := range con.Extra[kind] {
		if !strings.HasPrefix(c.Text, anchor+":") {
			continue
		}
		stmt := strings.TrimSpace(c.Text[len(anchor)+1:])
		word, rest := splitWord(stmt)
		var only []string
		if i := strings.Index(word, "@"); i > 0 {
			only = strings.Split(word[i+1:], ",")
			word = word[:i]
		}
		env := &specEnv{fc: fc, st: st, old: fc.entry, vars: map[string]Val{}, entry: fc.params, localFn: fc.curFn}
		if vars != nil {
			env.vars = copyVars(vars)
			if kind == "at_exit" {
				env.at = nil
			}
		}
		if (kind == "before_call" || kind == "after_call") && fc.curBlk != nil && fc.curBlk.Parent() == fc.curFn {
			env.at = fc.curBlk
		}
		if fc.curFn.Pkg != nil {
			env.pkg = fc.curFn.Pkg.Pkg
		}
		switch word {
		case "ghost":
			i := strings.Index(rest, "=")
			if i < 0 {
				fc.errorf("%s: bad ghost assignment %q", c.Pos, rest)
				continue
			}
			name := strings.TrimSpace(rest[:i])
			if fc.eng.ghosts[name] == nil {
				fc.errorf("%s: unknown ghost variable %s", c.Pos, name)
				continue
			}
			ex, err := parseSpecExpr(rest[i+1:])
			if err != nil {
				fc.errorf("%s: %v", c.Pos, err)
				continue
			}
			func() {
				defer func() {
					if r := recover(); r != nil {
						if se, ok := r.(specError); ok {
							fc.errorf("spec error at %s: %s", c.Pos, se.msg)
							return
						}
						panic(r)
					}
				}()
				v := fc.evalSpec(env, ex)
				k := fc.ghostKey(name)
				st.heap[k] = fc.sc.Define(fc.hv[k].name, fc.hv[k].sort, v.T)
			}()
		case "apply":
			// apply lemma(args): assume the instance of a lemma for the given terms. Binders named like
			// a ghost variable are filled with that ghost variable; the others take the arguments in order.
			i := strings.Index(rest, "(")
			if i < 0 || !strings.HasSuffix(rest, ")") {
				fc.errorf("%s: apply name(args)", c.Pos)
				continue
			}
			lname := strings.TrimSpace(rest[:i])
			var lm *Lemma
			for _, l := range fc.eng.lemmas {
				if l.Name == lname {
					lm = l
				}
			}
			if lm == nil || lm.Body == "" || len(lm.BinderNames) != len(lm.Binders) {
				fc.errorf("%s: cannot apply lemma %s", c.Pos, lname)
				continue
			}
			argTxt := splitTop(rest[i+1:len(rest)-1], ',')
			func() {
				defer func() {
					if r := recover(); r != nil {
						if se, ok := r.(specError); ok {
							fc.errorf("spec error at %s: %s", c.Pos, se.msg)
							return
						}
						panic(r)
					}
				}()
				inst := lm.Body
				ai := 0
				for bi, b := range lm.Binders {
					var term string
					if _, isGhost := fc.eng.ghosts[lm.BinderNames[bi]]; isGhost {
						term = fc.heapGet(st, fc.ghostKey(lm.BinderNames[bi]))
					} else {
						if ai >= len(argTxt) {
							specFail("apply %s: too few arguments", lname)
						}
						ex, err := parseSpecExpr(argTxt[ai])
						if err != nil {
							specFail("%v", err)
						}
						ai++
						term = fc.evalSpec(env, ex).T
					}
					term = fc.sc.Define("ap", b[1], term)
					inst = replaceSym(inst, b[0], term)
				}
				fc.assume(st, inst)
				if fc.usedLemmas == nil {
					fc.usedLemmas = map[string]bool{}
				}
				fc.usedLemmas[lname] = true
			}()
		case "mention":
			// plant a ground term (through an uninterpreted marker) so that lemmas triggered on it fire
			ex, err := parseSpecExpr(rest)
			if err != nil {
				fc.errorf("%s: %v", c.Pos, err)
				continue
			}
			func() {
				defer func() {
					if r := recover(); r != nil {
						if se, ok := r.(specError); ok {
							fc.errorf("spec error at %s: %s", c.Pos, se.msg)
							return
						}
						panic(r)
					}
				}()
				v := fc.evalSpec(env, ex)
				m := "mention_" + sanitize(v.Sort)
				fc.sc.Header("mention:"+m, fmt.Sprintf("(declare-fun %s (%s) Bool)", m, v.Sort))
				fc.assume(st, app(m, v.T))
			}()
		case "assert", "assume":
			ex, err := parseSpecExpr(rest)
			if err != nil {
				fc.errorf("%s: %v", c.Pos, err)
				continue
			}
			g := fc.evalBool(env, &Clause{Text: rest, Expr: ex, Pos: c.Pos})
			if word == "assert" {
				fc.obProps = only
				fc.oblige(st, "assert", g, pos, rest)
				fc.obProps = nil
				if only != nil {
					continue // a property-scoped assertion is checked, never assumed: it must not help other obligations
				}
			} else {
				fc.note("ASSUMED (not proved) at %s: %s", anchor, rest)
			}
			fc.assume(st, g)
		default:
			fc.errorf("%s: unknown statement %q", c.Pos, word)
		}
	}
}

func (fc *FnCtx) execCallWith1(fr *frame, st *State, c *ssa.CallCommon, fnv Val, args []Val, instr ssa.Value, pos token.Pos) (Val, bool) {
	resTy := c.Signature().Results()
	var rty types.Type = resTy
	if resTy.Len() == 1 {
		rty = resTy.At(0).Type()
	}
	if b, ok := c.Value.(*ssa.Builtin); ok {
		return fc.execBuiltin(st, b, args, rty, pos)
	}
	keys, callee := fc.calleeKeys(c, fnv)
	allArgs := args
	if c.IsInvoke() {
		allArgs = append([]Val{fnv}, args...)
	}
	con := fc.findContract(keys)
	if con != nil && !con.Inline {
		return fc.applyContract(st, con, callee, c, allArgs, rty, pos)
	}
	// closures and functions marked inline are executed in place
	if callee != nil && len(callee.Blocks) > 0 && (callee.Parent() != nil || (con != nil && con.Inline)) {
		for _, f := range fc.inlineStack {
			if f == callee {
				fc.errorf("recursive inlining of %s", callee)
				return fc.fresh(st, "rec", rty), true
			}
		}
		fc.inlineStack = append(fc.inlineStack, callee)
		var fvs []Val
		if fnv.Clo != nil {
			fvs = fnv.Clo.bindings
		}
		s0 := st.clone()
		saveDefers := st.defers
		rets := fc.execBody(callee, s0, allArgs, fvs, false, con)
		fc.inlineStack = fc.inlineStack[:len(fc.inlineStack)-1]
		if len(rets) == 0 {
			st.pc = "false"
			return Val{}, false
		}
		// merge return states
		var ins []inEdge
		for _, r := range rets {
			ins = append(ins, inEdge{nil, r.st})
		}
		m := fc.merge(ins)
		*st = *m
		st.defers = saveDefers
		if resTy.Len() == 0 {
			return Val{Ty: rty, Sort: "Tuple"}, true
		}
		var outs []Val
		for i := 0; i < resTy.Len(); i++ {
			t := rets[len(rets)-1].results[i].T
			for j := len(rets) - 2; j >= 0; j-- {
				t = ite(rets[j].st.pc, rets[j].results[i].T, t)
			}
			outs = append(outs, fc.mkVal(fc.sc.Define("ir", fc.sorts.SortOf(resTy.At(i).Type()), t), resTy.At(i).Type()))
		}
		if len(outs) == 1 {
			return outs[0], true
		}
		return Val{Tuple: outs, Ty: rty, Sort: "Tuple"}, true
	}
	// no contract: havoc everything the callee could touch
	name := "<dynamic>"
	if len(keys) > 0 {
		name = strings.TrimPrefix(keys[0], "@")
	}
	fc.uncontracted(name)
	if callee != nil {
		ws := fc.eng.writeSetOf(fc, callee)
		if ws.all {
			fc.note("call to %s without contract: heap havocked, result unconstrained", name)
		} else {
			fc.note("call to %s without contract: result unconstrained, heap havocked only where the callee (transitively) stores", name)
		}
		fc.havocWrites(st, ws)
	} else {
		fc.note("dynamic call %s without contract: result unconstrained; may store through its arguments only (assumption)", name)
		ws := &writeSet{keys: map[string]bool{}}
		fc.eng.libWrites(fc, c.Signature(), ws)
		fc.havocWrites(st, ws)
	}
	if resTy.Len() == 0 {
		return Val{Ty: rty, Sort: "Tuple"}, true
	}
	return fc.fresh(st, "r."+sanitize(name), rty), true
}

func (fc *FnCtx) uncontracted(name string) {}

func (fc *FnCtx) havocAll(st *State) {
	passed := func(ref string) bool {
		for _, a := range fc.curArgs {
			if a.T == ref || (a.Addr != nil && a.Addr.Ref == ref) {
				return true
			}
			if a.Clo != nil {
				for _, b := range a.Clo.bindings {
					if b.T == ref || (b.Addr != nil && b.Addr.Ref == ref) {
						return true
					}
				}
			}
		}
		return false
	}
	for _, k := range fc.hvOrder {
		h := fc.hv[k]
		old := fc.heapGet(st, k)
		nh := fc.sc.Fresh(h.name, h.sort)
		// boxes of this activation's own locals keep their content unless their address was passed
		for _, r := range fc.localBoxes[k] {
			if !passed(r) {
				nh = app("store", nh, r, app("select", old, r))
			}
		}
		if nh != "" && !isAtom(nh) {
			nh = fc.sc.Define(h.name, h.sort, nh)
		}
		st.heap[k] = nh
	}
	na := fc.sc.Fresh("alloc", "Int")
	fc.assume(st, app(">=", na, st.alloc))
	st.alloc = na
	st.pending = append(st.pending, pendHavoc{"all", "", len(fc.hvOrder)})
}

func (fc *FnCtx) execBuiltin(st *State, b *ssa.Builtin, args []Val, rty types.Type, pos token.Pos) (Val, bool) {
	switch b.Name() {
	case "len":
		a := args[0]
		switch t := a.Ty.Underlying().(type) {
		case *types.Slice:
			return fc.mkVal(slLen(a.T), rty), true
		case *types.Basic:
			return fc.mkVal(app("slen", a.T), rty), true
		case *types.Map:
			_, _, l := fc.mapKeys(t)
			r := fc.mkVal(fc.sc.Define("mlen", "Int", ite(eq(a.T, "0"), "0", app("select", fc.heapGet(st, l), a.T))), rty)
			fc.assume(st, app("<=", "0", r.T))
			fc.assume(st, fc.mapLenFacts(st, t, a.T, r.T))
			return r, true
		case *types.Chan:
			r := fc.fresh(st, "chlen", rty)
			fc.assume(st, app("<=", "0", r.T))
			return r, true
		case *types.Array:
			return fc.mkVal(fmt.Sprint(t.Len()), rty), true
		case *types.Pointer:
			return fc.mkVal(fmt.Sprint(t.Elem().Underlying().(*types.Array).Len()), rty), true
		}
	case "cap":
		if _, ok := args[0].Ty.Underlying().(*types.Slice); ok {
			return fc.mkVal(app("cap", args[0].T), rty), true
		}
	case "append":
		return fc.execAppend(st, args[0], args[1], rty, pos), true
	case "delete":
		m := args[0].Ty.Underlying().(*types.Map)
		fc.mapDelete(st, m, args[0].T, args[1].T)
		return Val{Ty: rty, Sort: "Tuple"}, true
	case "min", "max":
		t := args[0].T
		op := "<"
		if b.Name() == "max" {
			op = ">"
		}
		for _, a := range args[1:] {
			t = ite(app(op, a.T, t), a.T, t)
		}
		return fc.mkVal(fc.sc.Define(b.Name(), "Int", t), rty), true
	case "close":
		fc.lockHookChan(st, "close", args[0], pos)
		// close(nil) and a second close of the same channel panic; the ghost set ChClosed (declared
		// in lib/std.spec) records which channels this goroutine's history has closed
		if fc.eng.ghosts["ChClosed"] != nil && !fc.eng.lockMode {
			k := fc.ghostKey("ChClosed")
			fc.oblige(st, "close.nil", not(eq(args[0].T, "0")), pos, "close of a nil channel panics")
			fc.oblige(st, "close.closed", not(app("select", fc.heapGet(st, k), args[0].T)), pos, "close of a closed channel panics")
			st.heap[k] = fc.sc.DefineConst(fc.hv[k].name, fc.hv[k].sort, app("store", fc.heapGet(st, k), args[0].T, "true"))
		}
		return Val{Ty: rty, Sort: "Tuple"}, true
	case "panic":
		fc.oblige(st, "panic", "false", pos, "explicit panic is unreachable")
		st.pc = "false"
		return Val{}, false
	case "ssa:wrapnilchk":
		return args[0], true
	case "ssa:deferstack":
		return Val{T: "0", Sort: sortInt, Ty: rty}, true
	case "copy":
		fc.errorf("copy builtin not supported at %s", fc.eng.pos(pos))
	}
	fc.errorf("unsupported builtin %s at %s", b.Name(), fc.eng.pos(pos))
	return fc.fresh(st, "bi", rty), true
}

// mapLenFacts: len(m) == 0 <=> domain empty (one direction as a quantified fact).
func (fc *FnCtx) mapLenFacts(st *State, m *types.Map, mv, ln string) string {
	d, _, _ := fc.mapKeys(m)
	ks := fc.sorts.SortOf(m.Key())
	dom := app("select", fc.heapGet(st, d), mv)
	return implies(eq(ln, "0"), fmt.Sprintf("(forall ((k!q %s)) (! (not (select %s k!q)) :pattern ((select %s k!q))))", ks, dom, dom))
}

func (fc *FnCtx) execAppend(st *State, s, e Val, rty types.Type, pos token.Pos) Val {
	et := rty.Underlying().(*types.Slice).Elem()
	es := fc.sorts.SortOf(et)
	k := fc.elemKey(et)
	h := fc.heapGet(st, k)
	at := fc.atFn(et)
	// the operands occur inside patterns below: they must be constants, not macros with ite/and
	if strings.HasPrefix(s.T, "mv!") {
		s.T = fc.sc.DefineConst("aps", "Slice", s.T)
	}
	if e.Sort != sortStr && strings.HasPrefix(e.T, "mv!") {
		e.T = fc.sc.DefineConst("ape", "Slice", e.T)
	}
	var eLen, eArr, eOff string
	if e.Sort == sortStr { // append([]byte, string...)
		eLen = app("slen", e.T)
	} else {
		eLen, eArr, eOff = slLen(e.T), slArr(e.T), slOff(e.T)
	}
	sArr, sOff, sLen := slArr(s.T), slOff(s.T), slLen(s.T)
	n := fc.sc.Define("apn", "Int", app("+", sLen, eLen))
	fits := fc.sc.Define("fits", "Bool", app("<=", n, app("cap", s.T)))
	base := fc.sc.Define("apbase", "Int", app("+", sOff, sLen))
	newArr := fc.newRef(st)
	newCap := fc.sc.Fresh("cap", "Int")
	fc.assume(st, app("<=", n, newCap))
	src := func(j string) string { // j-th appended element
		if e.Sort == sortStr {
			return app("sat", e.T, j)
		}
		return app(at, h, eArr, eOff, j)
	}
	old := app("select", h, sArr)
	var inplace, fresh string
	var inAt, frAt func(a, o, i string) string
	nc := fc.sc.Fresh("apc", fmt.Sprintf("(Array Int %s)", es))
	// fresh copy: the first len(s) elements are those of s, then the appended ones
	fc.assume(st, fmt.Sprintf("(forall ((j!q Int)) (! (=> (and (<= 0 j!q) (< j!q %s)) (= (select %s j!q) (ite (< j!q %s) (select %s (+ %s j!q)) %s))) :pattern ((select %s j!q))))",
		n, nc, sLen, old, sOff, src(app("-", "j!q", sLen)), nc))
	fresh = app("store", h, newArr, nc)
	frAt = func(a, o, i string) string {
		x := app("+", o, i)
		return ite(eq(a, newArr), ite(and(app("<=", "0", x), app("<", x, sLen)), app(at, h, sArr, sOff, x),
			ite(and(app("<=", sLen, x), app("<", x, n)), src(app("-", x, sLen)), app("select", nc, x))), app(at, h, a, o, i))
	}
	if isNumeral(eLen) && e.Sort != sortStr {
		var cnt int
		fmt.Sscan(eLen, &cnt)
		c := old
		for j := 0; j < cnt; j++ {
			c = app("store", c, app("+", base, fmt.Sprint(j)), src(fmt.Sprint(j)))
		}
		inplace = app("store", h, sArr, c)
		inAt = func(a, o, i string) string {
			t := app(at, h, a, o, i)
			for j := cnt - 1; j >= 0; j-- {
				t = ite(and(eq(a, sArr), eq(app("+", o, i), app("+", base, fmt.Sprint(j)))), src(fmt.Sprint(j)), t)
			}
			return t
		}
	} else {
		nc1 := fc.sc.Fresh("apc", fmt.Sprintf("(Array Int %s)", es))
		fc.assume(st, fmt.Sprintf("(forall ((j!q Int)) (! (= (select %s j!q) (ite (and (<= %s j!q) (< j!q (+ %s %s))) %s (select %s j!q))) :pattern ((select %s j!q))))",
			nc1, base, base, eLen, src(app("-", "j!q", base)), old, nc1))
		inplace = app("store", h, sArr, nc1)
		inAt = func(a, o, i string) string {
			x := app("+", o, i)
			return ite(and(eq(a, sArr), app("<=", base, x), app("<", x, app("+", base, eLen))), src(app("-", x, base)), app(at, h, a, o, i))
		}
	}
	st.heap[k] = fc.sc.DefineConst(fc.hv[k].name, fc.hv[k].sort, ite(fits, inplace, fresh))
	fc.bridge(et, st.heap[k], func(a, o, i string) string { return ite(fits, inAt(a, o, i), frAt(a, o, i)) })
	res := ite(fits, app("mk_slice", sArr, sOff, n, app("cap", s.T)), app("mk_slice", newArr, "0", n, newCap))
	rv := fc.mkVal(fc.sc.DefineConst("app", sortSlice, res), rty)
	// append preserves the prefix, whichever of the two cases applies (a valid consequence of the
	// definitions above, stated over the result slice and triggered from either side)
	if isAtom(st.heap[k]) && isAtom(h) {
		fc.sc.cmds = append(fc.sc.cmds, fmt.Sprintf("(assert (forall ((x!q Int)) (! (=> (and (<= 0 x!q) (< x!q %s)) (= (%s %s (arr %s) (off %s) x!q) (%s %s %s %s x!q))) :pattern ((%s %s (arr %s) (off %s) x!q)) :pattern ((%s %s %s %s x!q)))))",
			sLen, at, st.heap[k], rv.T, rv.T, at, h, sArr, sOff, at, st.heap[k], rv.T, rv.T, at, h, sArr, sOff))
	}
	if isNumeral(eLen) && e.Sort != sortStr {
		// name the appended elements in the new heap (a valid fact; gives the solver the ground
		// terms that existential witnesses about "the element just appended" need)
		var cnt int
		fmt.Sscan(eLen, &cnt)
		for j := 0; j < cnt; j++ {
			fc.assume(st, eq(app(at, st.heap[k], app("arr", rv.T), app("off", rv.T), app("+", sLen, fmt.Sprint(j))), src(fmt.Sprint(j))))
		}
	}
	return rv
}

// ---- contract application at a call site ----

func (fc *FnCtx) applyContract(st *State, con *Contract, callee *ssa.Function, c *ssa.CallCommon, args []Val, rty types.Type, pos token.Pos) (Val, bool) {
	fc.usedContracts[con.Name] = true
	env := &specEnv{fc: fc, st: st, vars: map[string]Val{}, pkg: con.Pkg, con: con}
	pnames := con.ParamNames
	if len(pnames) == 0 && callee != nil {
		for _, p := range callee.Params {
			pnames = append(pnames, p.Name())
		}
	}
	for i, a := range args {
		if i < len(pnames) && pnames[i] != "_" && pnames[i] != "" {
			env.vars[pnames[i]] = a
		}
		env.vars[fmt.Sprintf("arg%d", i)] = a
	}
	for i, r := range con.Requires {
		g := fc.evalBool(env, r)
		fc.oblige(st, "pre."+sanitize(con.Name), g, pos, fmt.Sprintf("precondition %d of %s: %s", i, con.Name, r.Text))
		fc.assume(st, g)
	}
	fc.lockHookCall(st, con, env, pos)
	old := st.clone()
	// frame
	fc.applyFrame(st, env, con)
	// ghost updates and results
	resTy := c.Signature().Results()
	var outs []Val
	for i := 0; i < resTy.Len(); i++ {
		rv := fc.fresh(st, "r."+sanitize(con.Name), resTy.At(i).Type())
		outs = append(outs, rv)
		if i < len(con.Results) {
			env.vars[con.Results[i]] = rv
		}
		env.vars[fmt.Sprintf("res%d", i)] = rv
	}
	if len(outs) == 1 {
		env.vars["result"] = outs[0]
	}
	env.old = old
	env.st = st
	for _, e := range con.Ensures {
		fc.assume(st, fc.evalBool(env, e))
	}
	if con.NoReturn {
		st.pc = "false"
		return Val{}, false
	}
	switch len(outs) {
	case 0:
		return Val{Ty: rty, Sort: "Tuple"}, true
	case 1:
		return outs[0], true
	}
	return Val{Tuple: outs, Ty: rty, Sort: "Tuple"}, true
}

// applyFrame havocs what the contract's assigns clause names.
func (fc *FnCtx) applyFrame(st *State, env *specEnv, con *Contract) {
	if !con.HasAssigns {
		if con.Pure {
			return
		}
		// a trusted repository function without an assigns clause: its frame is what its body
		// (transitively) stores to, not "nothing"
		if (con.Trusted || con.WriteSetFrame) && !con.Lib {
			if fn := fc.eng.allFuncs[con.Name]; fn != nil && len(fn.Blocks) > 0 {
				fc.havocWrites(st, fc.eng.writeSetOf(fc, fn))
				return
			}
		}
		// default frame of a contract without assigns clause: nothing but allocation
		na := fc.sc.Fresh("alloc", "Int")
		fc.assume(st, app(">=", na, st.alloc))
		st.alloc = na
		return
	}
	for _, a := range con.Assigns {
		fc.havocTarget(st, env, a)
	}
	na := fc.sc.Fresh("alloc", "Int")
	fc.assume(st, app(">=", na, st.alloc))
	st.alloc = na
}

func (fc *FnCtx) havocTarget(st *State, env *specEnv, a *AssignTarget) {
	switch a.Kind {
	case "everything":
		fc.havocAll(st)
	case "except":
		for _, k := range fc.hvOrder {
			if !exceptMatch(a.Name, k) {
				h := fc.hv[k]
				st.heap[k] = fc.sc.Fresh(h.name, h.sort)
			}
		}
		st.pending = append(st.pending, pendHavoc{"except", a.Name, len(fc.hvOrder)})
	case "ghost":
		k := fc.ghostKey(a.Name)
		st.heap[k] = fc.sc.Fresh(fc.hv[k].name, fc.hv[k].sort)
	case "heapvar":
		// whole heap variable by key pattern, e.g. field of all objects: `Type.field[*]`
		for _, k := range fc.keysMatching(a.Name) {
			st.heap[k] = fc.sc.Fresh(fc.hv[k].name, fc.hv[k].sort)
		}
		st.pending = append(st.pending, pendHavoc{"pat", a.Name, len(fc.hvOrder)})
	case "loc":
		// a single location x.f / *p / s[i]: evaluate as an lvalue in the pre-state
		ad := fc.evalLvalue(env, a.Expr)
		if ad == nil {
			return
		}
		if ad.obj != "" {
			// whole struct object
			s := ad.objTy.Underlying().(*types.Struct)
			for i := 0; i < s.NumFields(); i++ {
				v := fc.sc.Fresh("fr", fc.sorts.SortOf(s.Field(i).Type()))
				fc.rootStore(st, &Addr{Kind: aField, Owner: ad.objTy, Field: i, Ref: ad.obj}, v)
			}
			return
		}
		v := fc.sc.Fresh("fr", fc.sorts.SortOf(ad.addr.Ty))
		fc.assumeTypeInvLater(st, ad.addr.Ty, v)
		fc.store(st, ad.addr, v)
	case "elems":
		// all elements of the backing array of a slice expression
		sv := fc.evalSpec(env, a.Expr)
		sl, ok := sv.Ty.Underlying().(*types.Slice)
		if !ok {
			fc.errorf("assigns %s[*]: not a slice", a.Text)
			return
		}
		k := fc.elemKey(sl.Elem())
		nc := fc.sc.Fresh("frc", fmt.Sprintf("(Array Int %s)", fc.sorts.SortOf(sl.Elem())))
		h := fc.heapGet(st, k)
		old := app("select", h, app("arr", sv.T))
		// only the window [off, off+len) may change
		fc.assume(st, fmt.Sprintf("(forall ((j!q Int)) (! (=> (or (< j!q (off %s)) (>= j!q (+ (off %s) (len %s)))) (= (select %s j!q) (select %s j!q))) :pattern ((select %s j!q))))", sv.T, sv.T, sv.T, nc, old, nc))
		_ = h
		fc.setArr(st, sl.Elem(), app("arr", sv.T), nc)
	case "map":
		mv := fc.evalSpec(env, a.Expr)
		m, ok := mv.Ty.Underlying().(*types.Map)
		if !ok {
			fc.errorf("assigns map %s: not a map", a.Text)
			return
		}
		d, vl, l := fc.mapKeys(m)
		for _, k := range []string{d, vl} {
			h := fc.heapGet(st, k)
			inner := fc.hv[k].sort[len("(Array Int ") : len(fc.hv[k].sort)-1]
			st.heap[k] = fc.sc.Define(fc.hv[k].name, fc.hv[k].sort, app("store", h, mv.T, fc.sc.Fresh("frm", inner)))
		}
		nl := fc.sc.Fresh("frl", "Int")
		fc.assume(st, app("<=", "0", nl))
		st.heap[l] = fc.sc.Define(fc.hv[l].name, fc.hv[l].sort, app("store", fc.heapGet(st, l), mv.T, nl))
	}
}

// replaceSym replaces whole-symbol occurrences of name in an SMT term.
func replaceSym(t, name, with string) string {
	var b strings.Builder
	for i := 0; i < len(t); {
		j := strings.Index(t[i:], name)
		if j < 0 {
			b.WriteString(t[i:])
			break
		}
		j += i
		e := j + len(name)
		okL := j == 0 || strings.ContainsRune(" ()", rune(t[j-1]))
		okR := e >= len(t) || strings.ContainsRune(" ()", rune(t[e]))
		b.WriteString(t[i:j])
		if okL && okR {
			b.WriteString(with)
		} else {
			b.WriteString(name)
		}
		i = e
	}
	return b.String()
}

func exceptMatch(pats, key string) bool {
	for _, p := range strings.Fields(pats) {
		if strings.Contains(key, p) {
			return true
		}
	}
	return false
}

func (fc *FnCtx) assumeTypeInvLater(st *State, ty types.Type, v string) {
	if isCheapInv(ty) {
		fc.assume(st, fc.sorts.TypeInv(ty, v, ""))
	}
}

func (fc *FnCtx) keysMatching(pat string) []string {
	var res []string
	for _, k := range fc.hvOrder {
		if keyMatches(pat, k) {
			res = append(res, k)
		}
	}
	return res
}

// calleeFrameKeys: conservative set of heap variables a call may assign (for loop havoc).
func (fc *FnCtx) calleeFrameKeys(c *ssa.CallCommon) (keys []string, all bool) {
	if b, ok := c.Value.(*ssa.Builtin); ok {
		switch b.Name() {
		case "append":
			if sl, ok := c.Args[0].Type().Underlying().(*types.Slice); ok {
				return []string{fc.elemKey(sl.Elem())}, false
			}
		case "delete":
			m := c.Args[0].Type().Underlying().(*types.Map)
			d, v, l := fc.mapKeys(m)
			return []string{d, v, l}, false
		}
		return nil, false
	}
	ks, callee := fc.calleeKeys(c, Val{})
	if callee == nil && !c.IsInvoke() {
		if mc, ok := c.Value.(*ssa.MakeClosure); ok {
			callee = mc.Fn.(*ssa.Function)
			ks = []string{fc.eng.fnName(callee)}
		}
	}
	con := fc.findContract(ks)
	if con == nil || con.Inline {
		if callee != nil && len(callee.Blocks) > 0 && (callee.Parent() != nil || (con != nil && con.Inline)) {
			// inlined body: collect its stores
			li := &loopInfo{blocks: map[*ssa.BasicBlock]bool{}}
			for _, b := range callee.Blocks {
				li.blocks[b] = true
			}
			_, hs, a := fc.modified(li)
			for k := range hs {
				keys = append(keys, k)
			}
			return keys, a
		}
		return nil, true
	}
	if !con.HasAssigns {
		if (con.Trusted || con.WriteSetFrame) && !con.Lib && !con.Pure {
			if fn := fc.eng.allFuncs[con.Name]; fn != nil && len(fn.Blocks) > 0 {
				ws := fc.eng.writeSetOf(fc, fn)
				for k := range ws.keys {
					keys = append(keys, k)
				}
				return keys, ws.all
			}
		}
		return nil, false
	}
	for _, a := range con.Assigns {
		switch a.Kind {
		case "everything":
			return nil, true
		case "except":
			for _, k := range fc.hvOrder {
				if !exceptMatch(a.Name, k) {
					keys = append(keys, k)
				}
			}
		case "ghost":
			keys = append(keys, fc.ghostKey(a.Name))
		case "heapvar":
			keys = append(keys, fc.keysMatching(a.Name)...)
		default:
			ks, ok := fc.frameKeysOfExpr(con, a)
			if !ok {
				return nil, true
			}
			keys = append(keys, ks...)
		}
	}
	return keys, false
}
