package main

// Reachability part of the lock discipline (C12): an object that is not itself a shared type with
// its own lock (a container/list, a list element, a skiplist, a slice, a map) and that was obtained
// from a guarded field is protected by that field's lock for as long as it is used: every call,
// field access, index, range or dereference through it must happen while the lock is still held.
// Without this rule a reader that copies `db.immutables` under the lock and walks the list after
// releasing it would satisfy the field discipline (seeded change C12_search_releases_lock_early).
//
// The tracking is per activation and syntactic over SSA values (taint from the guarded load,
// propagated through locals, phis, conversions, type assertions to non-shared types and the results
// of calls on a tainted receiver); the obligation itself uses the symbolic lockset of the state.

import (
	"go/token"
	"go/types"
	"strings"

	"golang.org/x/tools/go/ssa"
)

func (fc *FnCtx) reachableObjType(t types.Type) bool {
	switch u := t.Underlying().(type) {
	case *types.Pointer:
		el := u.Elem()
		if _, ok := el.Underlying().(*types.Struct); !ok {
			return false
		}
		n := fc.eng.typeName(el)
		if fc.eng.sharedTypes[n] || strings.HasPrefix(n, "sync.") || strings.HasPrefix(n, "atomic.") || strings.HasPrefix(n, "os.") || strings.HasPrefix(n, "watermark.") || strings.HasPrefix(n, "rand.") {
			return false // has its own synchronisation (its own field classification or a library guarantee)
		}
		return true
	case *types.Slice, *types.Map:
		return true
	case *types.Interface:
		return u.Empty() // `any` carrying an element value (list.Element.Value)
	}
	return false
}

func (fc *FnCtx) reachOf(v ssa.Value) (heldLock, bool) {
	if fc.reach == nil {
		return heldLock{}, false
	}
	l, ok := fc.reach[v]
	return l, ok
}

func (fc *FnCtx) reachOblige(st *State, v ssa.Value, what string, pos token.Pos) {
	l, ok := fc.reachOf(v)
	if !ok {
		return
	}
	fresh := "false"
	if fc.entry != nil && l.ref != "" {
		fresh = app(">=", l.ref, fc.entry.alloc)
	}
	fc.oblige(st, "guard.reach", or(fc.heldCond(st, l, false), fresh), pos,
		what+" of an object obtained from a field guarded by "+l.owner+"."+l.field+" needs that lock to be still held")
}

// reachBefore: obligations at the uses of tainted values (evaluated in the state before the instruction).
func (fc *FnCtx) reachBefore(st *State, in ssa.Instruction) {
	if !fc.eng.lockMode || len(fc.reach) == 0 {
		return
	}
	switch x := in.(type) {
	case *ssa.Call:
		c := x.Common()
		if c.IsInvoke() {
			fc.reachOblige(st, c.Value, "method call", in.Pos())
		}
		for _, a := range c.Args {
			fc.reachOblige(st, a, "call", in.Pos())
		}
	case *ssa.FieldAddr:
		fc.reachOblige(st, x.X, "field access", x.Pos())
	case *ssa.IndexAddr:
		fc.reachOblige(st, x.X, "index", x.Pos())
	case *ssa.Index:
		fc.reachOblige(st, x.X, "index", x.Pos())
	case *ssa.Lookup:
		fc.reachOblige(st, x.X, "map lookup", x.Pos())
	case *ssa.MapUpdate:
		fc.reachOblige(st, x.Map, "map update", x.Pos())
	case *ssa.Range:
		fc.reachOblige(st, x.X, "range", x.Pos())
	case *ssa.Slice:
		fc.reachOblige(st, x.X, "slice", x.Pos())
	case *ssa.UnOp:
		if x.Op == token.MUL {
			if _, isAlloc := x.X.(*ssa.Alloc); !isAlloc {
				fc.reachOblige(st, x.X, "dereference", x.Pos())
			}
		}
	}
}

// reachAfter: taint sources and propagation.
func (fc *FnCtx) reachAfter(st *State, in ssa.Instruction) {
	if !fc.eng.lockMode {
		return
	}
	set := func(v ssa.Value, l heldLock) {
		if fc.reach == nil {
			fc.reach = map[ssa.Value]heldLock{}
		}
		fc.reach[v] = l
	}
	switch x := in.(type) {
	case *ssa.UnOp:
		if x.Op != token.MUL {
			return
		}
		switch a := x.X.(type) {
		case *ssa.FieldAddr:
			st0 := a.X.Type().Underlying().(*types.Pointer).Elem()
			sn := fc.eng.typeName(st0)
			fname := st0.Underlying().(*types.Struct).Field(a.Field).Name()
			fi := fc.eng.fieldInfo[sn+"."+fname]
			if fi != nil && (fi.Class == "guarded_by" || fi.Class == "read_shared") && fc.reachableObjType(x.Type()) {
				ref := ""
				if rv, ok := fc.regs[a.X]; ok {
					ref = rv.T
					if ref == "" && rv.Addr != nil {
						ref = rv.Addr.Ref
					}
				}
				set(x, heldLock{owner: sn, field: fi.Arg, ref: ref})
				return
			}
			if l, ok := fc.reachOf(a.X); ok && fc.reachableObjType(x.Type()) {
				set(x, l) // a reference read out of a protected object is protected by the same lock
			}
		case *ssa.Alloc:
			if l, ok := fc.reachLocal[a]; ok {
				set(x, l)
			}
		case *ssa.IndexAddr:
			if l, ok := fc.reachOf(a.X); ok && fc.reachableObjType(x.Type()) {
				set(x, l)
			}
		}
	case *ssa.Store:
		if l, ok := fc.reachOf(x.Val); ok {
			if al, isAlloc := x.Addr.(*ssa.Alloc); isAlloc {
				if fc.reachLocal == nil {
					fc.reachLocal = map[*ssa.Alloc]heldLock{}
				}
				fc.reachLocal[al] = l
			}
		} else if al, isAlloc := x.Addr.(*ssa.Alloc); isAlloc && fc.reachLocal != nil {
			delete(fc.reachLocal, al)
		}
	case *ssa.Phi:
		for _, e := range x.Edges {
			if l, ok := fc.reachOf(e); ok {
				set(x, l)
				return
			}
		}
	case *ssa.ChangeType:
		if l, ok := fc.reachOf(x.X); ok {
			set(x, l)
		}
	case *ssa.MakeInterface:
		if l, ok := fc.reachOf(x.X); ok {
			set(x, l)
		}
	case *ssa.TypeAssert:
		if l, ok := fc.reachOf(x.X); ok && fc.reachableObjType(x.AssertedType) {
			set(x, l)
		}
	case *ssa.Extract:
		if l, ok := fc.reachOf(x.Tuple); ok {
			if fc.reachableObjType(x.Type()) {
				set(x, l)
			}
		}
	case *ssa.FieldAddr:
		if l, ok := fc.reachOf(x.X); ok {
			set(x, l)
		}
	case *ssa.IndexAddr:
		if l, ok := fc.reachOf(x.X); ok {
			set(x, l)
		}
	case *ssa.Slice:
		if l, ok := fc.reachOf(x.X); ok {
			set(x, l)
		}
	case *ssa.Call:
		c := x.Common()
		var src *heldLock
		if c.IsInvoke() {
			if l, ok := fc.reachOf(c.Value); ok {
				src = &l
			}
		}
		for _, a := range c.Args {
			if l, ok := fc.reachOf(a); ok && src == nil {
				ll := l
				src = &ll
			}
		}
		if src == nil {
			return
		}
		rt := x.Type()
		if tup, ok := rt.(*types.Tuple); ok {
			for i := 0; i < tup.Len(); i++ {
				if fc.reachableObjType(tup.At(i).Type()) {
					set(x, *src)
				}
			}
			return
		}
		if fc.reachableObjType(rt) {
			set(x, *src)
		}
	}
}
