package main

// Symbolic execution of one go/ssa function (NaiveForm) into obligations.
// Loops are cut at their headers with the invariants of the contract; calls use callee contracts.

import (
	"fmt"
	"go/constant"
	"go/token"
	"go/types"
	"regexp"
	"sort"
	"strings"

	"golang.org/x/tools/go/ssa"
)

type addrKind int

const (
	aLocal addrKind = iota
	aField
	aBox
	aElem
	aGlobal
)

type pathStep struct {
	st  types.Type // struct type
	idx int
}

type Addr struct {
	Kind   addrKind
	Alloc  *ssa.Alloc
	Global *ssa.Global
	Owner  types.Type // struct type (aField)
	Field  int
	Ref    string
	Elem   types.Type // aElem / aBox: type of the root location
	Arr    string
	Idx    string
	SliceT string // aElem via a slice: the slice term and the index within it (for the at_T accessor)
	IdxI   string
	Path   []pathStep
	Ty     types.Type // type of the addressed location
}

type closure struct {
	fn       *ssa.Function
	bindings []Val
}

type Val struct {
	T     string
	Sort  string
	Ty    types.Type
	Addr  *Addr
	Tuple []Val
	Clo   *closure
	Iter  *ssa.Range
	chanName string // for channel values loaded from a struct field: "pkg.Type.field"
}

type deferred struct {
	call *ssa.CallCommon
	args []Val
	fnv  Val
	pos  token.Pos
}

type State struct {
	pc     string
	locals map[*ssa.Alloc]string
	heap   map[string]string
	alloc  string
	defers []*deferred
	held   []string // lockset (terms), C12/C15
	// havocs by pattern that were applied before some heap variable was first used in this function
	// context: a variable that shows up later and matches must not read as its entry value
	pending []pendHavoc
}

type pendHavoc struct {
	kind string // all, except, pat
	pat  string
	n    int // number of heap variables declared when the havoc was applied: only later ones are affected
}

func (s *State) clone() *State {
	n := &State{pc: s.pc, alloc: s.alloc}
	n.pending = append([]pendHavoc(nil), s.pending...)
	n.locals = make(map[*ssa.Alloc]string, len(s.locals))
	for k, v := range s.locals {
		n.locals[k] = v
	}
	n.heap = make(map[string]string, len(s.heap))
	for k, v := range s.heap {
		n.heap[k] = v
	}
	n.defers = append([]*deferred(nil), s.defers...)
	n.held = append([]string(nil), s.held...)
	return n
}

type heapVar struct {
	name string // SMT base name
	idx  int    // position in hvOrder
	sort string
	kind string // field box elem mapdom mapval maplen global ghost iter
	ty   types.Type
}

type FnCtx struct {
	eng   *Engine
	fn    *ssa.Function
	name  string
	sc    *Script
	sorts *Sorts
	obs   []*Obligation
	con   *Contract
	regs  map[ssa.Value]Val
	hv    map[string]*heapVar
	hvOrder []string
	entry *State
	kindCount map[string]int
	strLits map[string]string
	notes  []string
	errs   []string
	params map[string]Val
	depth  int
	retStates []retInfo // for inlined calls
	inlineStack []*ssa.Function
	curFn  *ssa.Function // function whose body is being executed (differs from fn when inlining)
	unsupported bool
	loopOrd map[*ssa.BasicBlock]int
	usedContracts map[string]bool
	anchors map[*ssa.CallCommon]string
	atSorts map[string]string
	usedLemmas map[string]bool
	entryHeld []string
	serves    []string // wait objects this activation serves (C15)
	obProps   []string
	reach      map[ssa.Value]heldLock  // values protected by a lock (reach.go)
	reachLocal map[*ssa.Alloc]heldLock
	localBoxes map[string][]string
	curArgs []Val
	curBlk  *ssa.BasicBlock
	loopDecs map[*loopInfo]string
}

type retInfo struct {
	st      *State
	results []Val
}

func (fc *FnCtx) errorf(format string, a ...any) {
	fc.errs = append(fc.errs, fmt.Sprintf(format, a...))
	fc.unsupported = true
}

func (fc *FnCtx) note(format string, a ...any) {
	s := fmt.Sprintf(format, a...)
	for _, n := range fc.notes {
		if n == s {
			return
		}
	}
	fc.notes = append(fc.notes, s)
}

// ---- heap variables ----

func (fc *FnCtx) heapVarOf(key, sortName, kind string, ty types.Type) *heapVar {
	if h, ok := fc.hv[key]; ok {
		return h
	}
	h := &heapVar{name: "H$" + sanitize(key), sort: sortName, kind: kind, ty: ty, idx: len(fc.hvOrder)}
	fc.hv[key] = h
	fc.hvOrder = append(fc.hvOrder, key)
	fc.sc.Header("hv:"+key, fmt.Sprintf("(declare-const %s %s)", h.name, sortName))
	return h
}

func (fc *FnCtx) heapGet(st *State, key string) string {
	if t, ok := st.heap[key]; ok {
		return t
	}
	h := fc.hv[key]
	for _, p := range st.pending {
		hit := false
		if h.idx < p.n {
			continue // declared before that havoc: it was havocked (or deliberately kept) then
		}
		switch p.kind {
		case "all":
			hit = true
		case "except":
			hit = !exceptMatch(p.pat, key)
		case "pat":
			hit = keyMatches(p.pat, key)
		}
		if hit && h.kind != "iter" {
			t := fc.sc.Fresh(h.name, h.sort)
			st.heap[key] = t
			return t
		}
	}
	return h.name
}

func keyMatches(pat, k string) bool {
	if strings.HasSuffix(pat, "*") {
		p := strings.TrimSuffix(pat, "*")
		return strings.HasPrefix(k, p) || strings.Contains(k, "|"+p)
	}
	return k == pat || strings.HasSuffix(k, "|"+pat)
}

func (fc *FnCtx) fieldKey(owner types.Type, idx int) string {
	st := owner.Underlying().(*types.Struct)
	key := "F|" + fc.eng.typeName(owner) + "." + st.Field(idx).Name()
	fs := fc.sorts.SortOf(st.Field(idx).Type())
	fc.heapVarOf(key, fmt.Sprintf("(Array Int %s)", fs), "field", st.Field(idx).Type())
	return key
}

func (fc *FnCtx) boxKey(t types.Type) string {
	key := "B|" + fc.eng.typeName(t)
	fc.heapVarOf(key, fmt.Sprintf("(Array Int %s)", fc.sorts.SortOf(t)), "box", t)
	return key
}

func (fc *FnCtx) elemKey(t types.Type) string {
	key := "A|" + fc.eng.typeName(t)
	fc.heapVarOf(key, fmt.Sprintf("(Array Int (Array Int %s))", fc.sorts.SortOf(t)), "elem", t)
	return key
}

func (fc *FnCtx) mapKeys(m *types.Map) (dom, val, ln string) {
	n := fc.eng.typeName(m)
	ks, vs := fc.sorts.SortOf(m.Key()), fc.sorts.SortOf(m.Elem())
	dom, val, ln = "MD|"+n, "MV|"+n, "ML|"+n
	fc.heapVarOf(dom, fmt.Sprintf("(Array Int (Array %s Bool))", ks), "mapdom", m)
	fc.heapVarOf(val, fmt.Sprintf("(Array Int (Array %s %s))", ks, vs), "mapval", m)
	fc.heapVarOf(ln, "(Array Int Int)", "maplen", m)
	return
}

func (fc *FnCtx) globalKey(g *ssa.Global) string {
	key := "G|" + fc.eng.shorten(g.String())
	t := g.Type().(*types.Pointer).Elem()
	fc.heapVarOf(key, fc.sorts.SortOf(t), "global", t)
	return key
}

func (fc *FnCtx) ghostKey(name string) string {
	g := fc.eng.ghosts[name]
	key := "X|" + name
	fc.heapVarOf(key, fc.ghostSort(g.Sort), "ghost", nil)
	return key
}

var ghostTypeRe = regexp.MustCompile(`T\(([A-Za-z0-9_]+)\.([A-Za-z0-9_]+)\)`)

// ghostSort resolves T(pkg.Type) inside a ghost variable's sort to the SMT sort of that Go type.
func (fc *FnCtx) ghostSort(s string) string {
	return ghostTypeRe.ReplaceAllStringFunc(s, func(m string) string {
		sm := ghostTypeRe.FindStringSubmatch(m)
		t := fc.eng.lookupNamedType(nil, sm[1], sm[2])
		if t == nil {
			fc.errorf("ghost sort: unknown type %s.%s", sm[1], sm[2])
			return "Int"
		}
		fc.eng.lemmaTypes[sm[1]+"."+sm[2]] = t
		return fc.sorts.SortOf(t)
	})
}

// ---- obligations ----

func (fc *FnCtx) oblige(st *State, kind, goal string, pos token.Pos, detail string) {
	if goal == "true" || st.pc == "false" {
		return
	}
	// a conjunction is discharged conjunct by conjunct (smaller queries, named parts)
	if strings.HasPrefix(goal, "(and ") && !strings.HasPrefix(kind, "cover") {
		parts := splitSexprs(goal[5 : len(goal)-1])
		if len(parts) > 1 && len(parts) <= 16 {
			for i, p := range parts {
				fc.oblige(st, fmt.Sprintf("%s.c%d", kind, i), p, pos, fmt.Sprintf("%s [conjunct %d]", detail, i))
			}
			return
		}
	}
	// a universally quantified goal is proved for fresh constants (forall-introduction): the range
	// hypothesis moves into the path condition, where its ground terms are visible to E-matching
	if strings.HasPrefix(goal, "(forall ((") && !strings.HasPrefix(kind, "cover") {
		if decls, body, ok := splitQuant(goal); ok {
			skolemOK := true
			for _, d := range decls {
				if !strings.Contains(d[0], "!b") {
					skolemOK = false // only engine-generated (unique) binder names are reused as constants
				}
			}
			if skolemOK {
				for _, d := range decls {
					fc.sc.cmds = append(fc.sc.cmds, fmt.Sprintf("(declare-const %s %s)", d[0], d[1]))
				}
				body = stripPattern(body)
				st2 := st
				if strings.HasPrefix(body, "(=> ") {
					ps := splitSexprs(body[4 : len(body)-1])
					if len(ps) == 2 {
						st2 = st.clone()
						fc.assume(st2, ps[0])
						body = ps[1]
					}
				}
				fc.oblige(st2, kind, body, pos, detail)
				return
			}
		}
	}
	extra := fc.mentions(goal)
	fc.kindCount[kind]++
	o := &Obligation{
		extra:  extra,
		Name:   fmt.Sprintf("%s/%s#%d", fc.name, kind, fc.kindCount[kind]),
		Func:   fc.name,
		Kind:   kind,
		Pos:    fc.eng.pos(pos),
		script: fc.sc,
		prefix: fc.sc.Mark(),
		pc:     st.pc,
		goal:   goal,
		GoalTxt: detail,
	}
	if fc.con != nil {
		o.Props = fc.con.Props
	}
	if fc.obProps != nil {
		o.Props = fc.obProps // `assert@Cnn E`: an obligation that belongs to one property only
	}
	fc.obs = append(fc.obs, o)
}

// splitQuant parses "(forall ((x S) (y T)) body)".
func splitQuant(q string) (decls [][2]string, body string, ok bool) {
	i := strings.Index(q, "((")
	if i < 0 {
		return nil, "", false
	}
	j := matchParen(q, i)
	if j < 0 {
		return nil, "", false
	}
	for _, d := range splitSexprs(q[i+1 : j]) {
		d = strings.TrimSpace(d)
		if !strings.HasPrefix(d, "(") {
			return nil, "", false
		}
		n, so := splitWord(d[1 : len(d)-1])
		decls = append(decls, [2]string{n, so})
	}
	body = strings.TrimSpace(q[j+1 : len(q)-1])
	return decls, body, true
}

func stripPattern(b string) string {
	if strings.HasPrefix(b, "(! ") {
		ps := splitSexprs(b[3 : len(b)-1])
		if len(ps) > 0 {
			return ps[0]
		}
	}
	return b
}

// mentions: element-accessor terms of the goal that contain no bound variable are asserted to the
// solver through an uninterpreted marker, so that they exist as ground terms (a goal's existential
// otherwise hides them inside a quantifier body, where E-matching cannot see them).
func (fc *FnCtx) mentions(goal string) []string {
	if !strings.Contains(goal, "(exists ") && !strings.Contains(goal, "(forall ") {
		return nil
	}
	bound := map[string]bool{}
	rest := goal
	for {
		i := strings.Index(rest, "(forall ((")
		k := strings.Index(rest, "(exists ((")
		if i < 0 || (k >= 0 && k < i) {
			i = k
		}
		if i < 0 {
			break
		}
		j := matchParen(rest, i+8)
		if j < 0 {
			break
		}
		for _, d := range splitSexprs(rest[i+9 : j]) {
			n, _ := splitWord(strings.Trim(d, "()"))
			bound[n] = true
		}
		rest = rest[j:]
	}
	seen := map[string]bool{}
	var out []string
	for at, so := range fc.atSorts {
		probe := "(" + at + " "
		r := goal
		for {
			i := strings.Index(r, probe)
			if i < 0 {
				break
			}
			j := matchParen(r, i)
			if j < 0 {
				break
			}
			t := r[i : j+1]
			r = r[i+1:]
			ground := true
			for b := range bound {
				if strings.Contains(t, b+" ") || strings.Contains(t, b+")") {
					ground = false
				}
			}
			if ground && !seen[t] {
				seen[t] = true
				m := "mention_" + sanitize(so)
				fc.sc.Header("mention:"+m, fmt.Sprintf("(declare-fun %s (%s) Bool)", m, so))
				out = append(out, app(m, t))
			}
		}
	}
	sort.Strings(out)
	return out
}

func (fc *FnCtx) assume(st *State, cond string) {
	if cond == "true" {
		return
	}
	st.pc = fc.sc.Define("pc", "Bool", and(st.pc, cond))
}

// ---- values ----

func (fc *FnCtx) mkVal(t string, ty types.Type) Val {
	return Val{T: t, Sort: fc.sorts.SortOf(ty), Ty: ty}
}

func (fc *FnCtx) fresh(st *State, prefix string, ty types.Type) Val {
	so := fc.sorts.SortOf(ty)
	if so == "Tuple" {
		tup := ty.(*types.Tuple)
		var vs []Val
		for i := 0; i < tup.Len(); i++ {
			vs = append(vs, fc.fresh(st, fmt.Sprintf("%s.%d", prefix, i), tup.At(i).Type()))
		}
		return Val{Tuple: vs, Ty: ty, Sort: "Tuple"}
	}
	n := fc.sc.Fresh(prefix, so)
	fc.assume(st, fc.sorts.TypeInv(ty, n, st.alloc))
	return Val{T: n, Sort: so, Ty: ty}
}

func (fc *FnCtx) strLit(s string) string { return fc.eng.strLit(s) }

// strLit: string literals are global constants (declared once, in every query).
func (e *Engine) strLit(s string) string {
	if s == "" {
		return "str_empty"
	}
	if s == "@" {
		return "str_at"
	}
	if n, ok := e.strLits[s]; ok {
		return n
	}
	n := fmt.Sprintf("strlit_%d", len(e.strLits))
	var b strings.Builder
	fmt.Fprintf(&b, "(declare-const %s Str) ; %q\n(assert (= (slen %s) %d))\n", n, s, n, len(s))
	if len(s) <= 24 {
		for i := 0; i < len(s); i++ {
			fmt.Fprintf(&b, "(assert (= (sat %s %d) %d))\n", n, i, s[i])
		}
	}
	for o, on := range e.strLits {
		if len(o) == len(s) {
			fmt.Fprintf(&b, "(assert (not (= %s %s)))\n", n, on)
		}
	}
	if len(s) == 1 {
		fmt.Fprintf(&b, "(assert (not (= %s str_at)))\n", n)
	}
	e.strLits[s] = n
	e.strLitDecls = append(e.strLitDecls, b.String())
	return n
}

func (fc *FnCtx) constVal(c *ssa.Const) Val {
	ty := c.Type()
	so := fc.sorts.SortOf(ty)
	if c.Value == nil {
		return Val{T: fc.sorts.Zero(ty), Sort: so, Ty: ty}
	}
	switch c.Value.Kind() {
	case constant.Bool:
		if constant.BoolVal(c.Value) {
			return Val{T: "true", Sort: so, Ty: ty}
		}
		return Val{T: "false", Sort: so, Ty: ty}
	case constant.Int:
		if so == sortFloat {
			return Val{T: fc.floatConst(c.Value.ExactString()), Sort: so, Ty: ty}
		}
		s := c.Value.ExactString()
		if strings.HasPrefix(s, "-") {
			s = "(- " + s[1:] + ")"
		}
		return Val{T: s, Sort: so, Ty: ty}
	case constant.String:
		return Val{T: fc.strLit(constant.StringVal(c.Value)), Sort: so, Ty: ty}
	case constant.Float:
		return Val{T: fc.floatConst(c.Value.ExactString()), Sort: so, Ty: ty}
	}
	fc.errorf("unsupported constant %v", c)
	return Val{T: "0", Sort: so, Ty: ty}
}

func (fc *FnCtx) floatConst(s string) string { return fc.eng.floatConst(s) }

// floatConst: float literals are global opaque constants; the order between two literals is the
// only arithmetic fact about floats the theory contains (exact rational comparison).
func (e *Engine) floatConst(s string) string {
	if n, ok := e.fltLits[s]; ok {
		return n
	}
	n := "flt_" + sanitize(s)
	var b strings.Builder
	fmt.Fprintf(&b, "(declare-const %s Float)\n", n)
	v := constant.MakeFromLiteral(s, token.FLOAT, 0)
	if strings.Contains(s, "/") {
		parts := strings.SplitN(s, "/", 2)
		v = constant.BinaryOp(constant.MakeFromLiteral(parts[0], token.INT, 0), token.QUO, constant.MakeFromLiteral(parts[1], token.INT, 0))
	} else if !strings.ContainsAny(s, ".eE") {
		v = constant.ToFloat(constant.MakeFromLiteral(s, token.INT, 0))
	}
	if e.fltVals == nil {
		e.fltVals = map[string]constant.Value{}
	}
	for o, on := range e.fltLits {
		ov := e.fltVals[o]
		if v.Kind() == constant.Unknown || ov.Kind() == constant.Unknown {
			continue
		}
		for _, p := range [][2]string{{n, on}, {on, n}} {
			x, y := v, ov
			if p[0] == on {
				x, y = ov, v
			}
			tf := func(b bool) string {
				if b {
					return ""
				}
				return "not "
			}
			wrap := func(neg, t string) string {
				if neg == "" {
					return t
				}
				return "(not " + t + ")"
			}
			fmt.Fprintf(&b, "(assert %s)\n", wrap(tf(constant.Compare(x, token.LSS, y)), fmt.Sprintf("(float_lt %s %s)", p[0], p[1])))
			fmt.Fprintf(&b, "(assert %s)\n", wrap(tf(constant.Compare(x, token.LEQ, y)), fmt.Sprintf("(float_le %s %s)", p[0], p[1])))
			fmt.Fprintf(&b, "(assert %s)\n", wrap(tf(constant.Compare(x, token.GTR, y)), fmt.Sprintf("(float_gt %s %s)", p[0], p[1])))
			fmt.Fprintf(&b, "(assert %s)\n", wrap(tf(constant.Compare(x, token.GEQ, y)), fmt.Sprintf("(float_ge %s %s)", p[0], p[1])))
		}
	}
	e.fltLits[s] = n
	e.fltVals[s] = v
	e.strLitDecls = append(e.strLitDecls, b.String())
	return n
}

func (fc *FnCtx) val(v ssa.Value) Val {
	switch x := v.(type) {
	case *ssa.Const:
		return fc.constVal(x)
	case *ssa.Global:
		return Val{Addr: &Addr{Kind: aGlobal, Global: x, Ty: x.Type().(*types.Pointer).Elem()}, Ty: x.Type(), Sort: sortInt}
	case *ssa.Function:
		return Val{Clo: &closure{fn: x}, Ty: x.Type(), Sort: sortInt, T: "0"}
	case *ssa.Builtin:
		return Val{Ty: x.Type(), T: "0"}
	}
	if r, ok := fc.regs[v]; ok {
		return r
	}
	fc.errorf("use of undefined SSA value %s (%T) in %s", v.Name(), v, fc.curFn)
	return Val{T: "0", Sort: fc.sorts.SortOf(v.Type()), Ty: v.Type()}
}

// ---- addresses ----

func (fc *FnCtx) rootLoad(st *State, a *Addr) string {
	switch a.Kind {
	case aLocal:
		if t, ok := st.locals[a.Alloc]; ok {
			return t
		}
		fc.errorf("load of uninitialised local %s", a.Alloc.Comment)
		return fc.sorts.Zero(a.Elem)
	case aField:
		return app("select", fc.heapGet(st, fc.fieldKey(a.Owner, a.Field)), a.Ref)
	case aBox:
		return app("select", fc.heapGet(st, fc.boxKey(a.Elem)), a.Ref)
	case aElem:
		if a.SliceT != "" {
			return app(fc.atFn(a.Elem), fc.heapGet(st, fc.elemKey(a.Elem)), app("arr", a.SliceT), app("off", a.SliceT), a.IdxI)
		}
		return app("select", app("select", fc.heapGet(st, fc.elemKey(a.Elem)), a.Arr), a.Idx)
	case aGlobal:
		return fc.heapGet(st, fc.globalKey(a.Global))
	}
	panic("rootLoad")
}

// atFn declares the element accessor at_T(A, s, i) = A[arr s][off s + i]; quantified invariants
// trigger on it, which keeps arithmetic out of the patterns.
func (fc *FnCtx) atFn(elem types.Type) string {
	es := fc.sorts.SortOf(elem)
	name := "at_" + sanitize(es)
	if fc.atSorts == nil {
		fc.atSorts = map[string]string{}
	}
	fc.atSorts[name] = es
	fc.sc.Header("at:"+name, fmt.Sprintf("(declare-fun %s ((Array Int (Array Int %s)) Int Int Int) %s)\n(assert (forall ((A (Array Int (Array Int %s))) (a Int) (o Int) (i Int)) (! (= (%s A a o i) (select (select A a) (+ o i))) :pattern ((%s A a o i)))))", name, es, es, es, name, name))
	if es == sortSlice {
		// slices stored in arrays are well-formed slice headers (type invariant of the memory model)
		fc.sc.Header("at-inv:"+name, fmt.Sprintf("(assert (forall ((A (Array Int (Array Int Slice))) (a Int) (o Int) (i Int)) (! (slice_ok (%s A a o i)) :pattern ((%s A a o i)))))", name, name))
	}
	return name
}

// bridge links the element accessor over a new element heap to the accessor over the heap it was
// derived from (a valid consequence of the accessor's definition, stated so that quantified facts
// about the old heap are triggered by terms over the new one).
func (fc *FnCtx) bridge(elem types.Type, newHeap string, body func(a, o, i string) string) {
	if !isAtom(newHeap) {
		return
	}
	at := fc.atFn(elem)
	b := body("a!q", "o!q", "i!q")
	// also trigger on accessor terms over the heaps the new one was derived from, so that facts
	// about an element of the old heap carry over to the new one
	pats := fmt.Sprintf(":pattern ((%s %s a!q o!q i!q))", at, newHeap)
	seen := map[string]bool{}
	rest := b
	probe := "(" + at + " "
	for {
		j := strings.Index(rest, probe)
		if j < 0 {
			break
		}
		rest = rest[j+len(probe):]
		e := strings.IndexByte(rest, ' ')
		if e < 0 {
			break
		}
		if strings.HasPrefix(rest[e:], " a!q o!q i!q)") && !seen[rest[:e]] && isAtom(rest[:e]) {
			seen[rest[:e]] = true
			pats += fmt.Sprintf(" :pattern ((%s %s a!q o!q i!q))", at, rest[:e])
		}
	}
	fc.sc.cmds = append(fc.sc.cmds, fmt.Sprintf("(assert (forall ((a!q Int) (o!q Int) (i!q Int)) (! (= (%s %s a!q o!q i!q) %s) %s)))",
		at, newHeap, b, pats))
}

// setArr replaces the whole content of array id x by c in element heap k.
func (fc *FnCtx) setArr(st *State, elem types.Type, x, c string) {
	k := fc.elemKey(elem)
	h := fc.heapGet(st, k)
	at := fc.atFn(elem)
	st.heap[k] = fc.sc.DefineConst(fc.hv[k].name, fc.hv[k].sort, app("store", h, x, c))
	fc.bridge(elem, st.heap[k], func(a, o, i string) string {
		return ite(eq(a, x), app("select", c, app("+", o, i)), app(at, h, a, o, i))
	})
}

func (fc *FnCtx) rootStore(st *State, a *Addr, v string) {
	switch a.Kind {
	case aLocal:
		st.locals[a.Alloc] = v
	case aField:
		k := fc.fieldKey(a.Owner, a.Field)
		st.heap[k] = fc.sc.Define(fc.hv[k].name, fc.hv[k].sort, app("store", fc.heapGet(st, k), a.Ref, v))
	case aBox:
		k := fc.boxKey(a.Elem)
		st.heap[k] = fc.sc.Define(fc.hv[k].name, fc.hv[k].sort, app("store", fc.heapGet(st, k), a.Ref, v))
	case aElem:
		k := fc.elemKey(a.Elem)
		h := fc.heapGet(st, k)
		st.heap[k] = fc.sc.DefineConst(fc.hv[k].name, fc.hv[k].sort, app("store", h, a.Arr, app("store", app("select", h, a.Arr), a.Idx, v)))
		at := fc.atFn(a.Elem)
		arrT, idxT := a.Arr, a.Idx
		fc.bridge(a.Elem, st.heap[k], func(aa, o, i string) string {
			return ite(and(eq(aa, arrT), eq(app("+", o, i), idxT)), v, app(at, h, aa, o, i))
		})
	case aGlobal:
		st.heap[fc.globalKey(a.Global)] = v
	}
}

func (fc *FnCtx) rootType(a *Addr) types.Type {
	switch a.Kind {
	case aLocal:
		return a.Elem
	case aField:
		return a.Owner.Underlying().(*types.Struct).Field(a.Field).Type()
	case aBox, aElem:
		return a.Elem
	case aGlobal:
		return a.Global.Type().(*types.Pointer).Elem()
	}
	panic("rootType")
}

func (fc *FnCtx) load(st *State, a *Addr) Val {
	t := fc.rootLoad(st, a)
	for _, p := range a.Path {
		info := fc.sorts.structInfoOf(p.st)
		t = app(info.fields[p.idx], t)
	}
	ty := a.Ty
	v := fc.mkVal(t, ty)
	if _, isChan := ty.Underlying().(*types.Chan); isChan && a.Kind == aField && len(a.Path) == 0 {
		v.chanName = fc.eng.typeName(a.Owner) + "." + a.Owner.Underlying().(*types.Struct).Field(a.Field).Name()
	}
	if len(a.Path) == 0 && a.Kind != aLocal {
		// values read from shared memory satisfy their type invariant
		if inv := fc.sorts.TypeInv(ty, t, st.alloc); inv != "true" && isCheapInv(ty) {
			v.T = fc.sc.Define("ld", v.Sort, t)
			fc.assume(st, fc.sorts.TypeInv(ty, v.T, st.alloc))
		}
	}
	return v
}

func isCheapInv(t types.Type) bool {
	switch u := t.Underlying().(type) {
	case *types.Basic, *types.Pointer, *types.Slice, *types.Map, *types.Chan:
		return true
	case *types.Struct:
		// small structs: the invariants of their fields (slice headers, integer ranges)
		if u.NumFields() > 6 {
			return false
		}
		for i := 0; i < u.NumFields(); i++ {
			if _, nested := u.Field(i).Type().Underlying().(*types.Struct); nested {
				return false
			}
		}
		return true
	}
	return false
}

func (fc *FnCtx) updatePath(cur string, path []pathStep, v string) string {
	if len(path) == 0 {
		return v
	}
	p := path[0]
	info := fc.sorts.structInfoOf(p.st)
	var args []string
	for i, sel := range info.fields {
		if i == p.idx {
			args = append(args, fc.updatePath(app(sel, cur), path[1:], v))
		} else {
			args = append(args, app(sel, cur))
		}
	}
	return app("mk_"+info.sortName, args...)
}

func (fc *FnCtx) store(st *State, a *Addr, v string) {
	if len(a.Path) == 0 {
		fc.rootStore(st, a, v)
		return
	}
	cur := fc.rootLoad(st, a)
	nv := fc.updatePath(cur, a.Path, v)
	fc.rootStore(st, a, fc.sc.Define("upd", fc.sorts.SortOf(fc.rootType(a)), nv))
}

// addrOfPtr turns a pointer value into an address of the pointee.
func (fc *FnCtx) addrOfPtr(p Val) *Addr {
	if p.Addr != nil {
		return p.Addr
	}
	pt, ok := p.Ty.Underlying().(*types.Pointer)
	if !ok {
		fc.errorf("deref of non-pointer %v", p.Ty)
		return &Addr{Kind: aBox, Elem: types.Typ[types.Int], Ref: "0", Ty: types.Typ[types.Int]}
	}
	el := pt.Elem()
	if _, isStruct := el.Underlying().(*types.Struct); isStruct {
		return nil // whole-object pointer: handled by caller
	}
	return &Addr{Kind: aBox, Elem: el, Ref: p.T, Ty: el}
}

func (fc *FnCtx) loadStructObj(st *State, ref string, ty types.Type) string {
	s := ty.Underlying().(*types.Struct)
	info := fc.sorts.structInfoOf(ty)
	if s.NumFields() == 0 {
		return "mk_" + info.sortName
	}
	var args []string
	for i := 0; i < s.NumFields(); i++ {
		args = append(args, app("select", fc.heapGet(st, fc.fieldKey(ty, i)), ref))
	}
	return app("mk_"+info.sortName, args...)
}

func (fc *FnCtx) storeStructObj(st *State, ref string, ty types.Type, v string) {
	s := ty.Underlying().(*types.Struct)
	info := fc.sorts.structInfoOf(ty)
	for i := 0; i < s.NumFields(); i++ {
		fc.rootStore(st, &Addr{Kind: aField, Owner: ty, Field: i, Ref: ref}, app(info.fields[i], v))
	}
}

func (fc *FnCtx) nonNil(st *State, p Val, pos token.Pos, what string) {
	if p.Addr != nil {
		return
	}
	fc.oblige(st, "nil", not(eq(p.T, "0")), pos, "nil dereference: "+what)
}

func (fc *FnCtx) newRef(st *State) string {
	r := st.alloc
	st.alloc = fc.sc.Define("alloc", "Int", app("+", r, "1"))
	return r
}

// ---- merging ----

type inEdge struct {
	pred *ssa.BasicBlock
	st   *State
}

func (fc *FnCtx) merge(ins []inEdge) *State {
	if len(ins) == 1 {
		return ins[0].st.clone()
	}
	res := ins[0].st.clone()
	var pcs []string
	for _, e := range ins {
		pcs = append(pcs, e.st.pc)
	}
	res.pc = fc.sc.Define("pc", "Bool", or(pcs...))
	asConst := false
	mergeTerm := func(get func(*State) string, sortName, prefix string) string {
		t := get(ins[len(ins)-1].st)
		same := true
		for _, e := range ins {
			if get(e.st) != t {
				same = false
			}
		}
		if same {
			return t
		}
		for i := len(ins) - 2; i >= 0; i-- {
			t = ite(ins[i].st.pc, get(ins[i].st), t)
		}
		// merged values are declared constants (not macros): they may end up inside patterns
		_ = asConst
		return fc.sc.DefineConst(prefix, sortName, t)
	}
	// locals: union of keys
	keys := map[*ssa.Alloc]bool{}
	for _, e := range ins {
		for k := range e.st.locals {
			keys[k] = true
		}
	}
	for k := range keys {
		k := k
		inAll := true
		for _, e := range ins {
			if _, ok := e.st.locals[k]; !ok {
				inAll = false
			}
		}
		if !inAll {
			delete(res.locals, k)
			continue
		}
		so := fc.sorts.SortOf(k.Type().(*types.Pointer).Elem())
		res.locals[k] = mergeTerm(func(s *State) string { return s.locals[k] }, so, "m."+k.Comment)
	}
	hkeys := map[string]bool{}
	for _, e := range ins {
		for k := range e.st.heap {
			hkeys[k] = true
		}
	}
	var hk []string
	for k := range hkeys {
		hk = append(hk, k)
	}
	sort.Strings(hk)
	for _, k := range hk {
		k := k
		asConst = fc.hv[k].kind == "elem"
		res.heap[k] = mergeTerm(func(s *State) string { return fc.heapGet(s, k) }, fc.hv[k].sort, fc.hv[k].name)
		asConst = false
		if h := fc.hv[k]; h.kind == "elem" {
			differ := false
			for _, e := range ins {
				if fc.heapGet(e.st, k) != res.heap[k] {
					differ = true
				}
			}
			if differ {
				at := fc.atFn(h.ty)
				fc.bridge(h.ty, res.heap[k], func(a, o, i string) string {
					t := app(at, fc.heapGet(ins[len(ins)-1].st, k), a, o, i)
					for j := len(ins) - 2; j >= 0; j-- {
						t = ite(ins[j].st.pc, app(at, fc.heapGet(ins[j].st, k), a, o, i), t)
					}
					return t
				})
			}
		}
	}
	res.alloc = mergeTerm(func(s *State) string { return s.alloc }, "Int", "alloc")
	// pending havocs: the union over the incoming states (conservative)
	res.pending = nil
	seenP := map[pendHavoc]bool{}
	for _, e := range ins {
		for _, p := range e.st.pending {
			if !seenP[p] {
				seenP[p] = true
				res.pending = append(res.pending, p)
			}
		}
	}
	// defers and locksets must agree
	for _, e := range ins[1:] {
		if len(e.st.defers) != len(res.defers) {
			fc.errorf("defer stacks differ at a join in %s", fc.curFn)
		}
		if strings.Join(e.st.held, ",") != strings.Join(res.held, ",") {
			fc.note("locksets differ at a join in %s: %v vs %v", fc.curFn, e.st.held, res.held)
		}
	}
	return res
}

// ---- loops ----

type loopInfo struct {
	header *ssa.BasicBlock
	blocks map[*ssa.BasicBlock]bool
	ord    int
}

func isBackEdge(from, to *ssa.BasicBlock) bool { return to.Dominates(from) }

func findLoops(fn *ssa.Function) map[*ssa.BasicBlock]*loopInfo {
	loops := map[*ssa.BasicBlock]*loopInfo{}
	for _, b := range fn.Blocks {
		for _, s := range b.Succs {
			if isBackEdge(b, s) {
				li := loops[s]
				if li == nil {
					li = &loopInfo{header: s, blocks: map[*ssa.BasicBlock]bool{s: true}}
					loops[s] = li
				}
				// natural loop: all blocks that reach b without passing through s
				stack := []*ssa.BasicBlock{b}
				for len(stack) > 0 {
					x := stack[len(stack)-1]
					stack = stack[:len(stack)-1]
					if li.blocks[x] {
						continue
					}
					li.blocks[x] = true
					stack = append(stack, x.Preds...)
				}
			}
		}
	}
	// ordinal in source order of the header position
	var hs []*ssa.BasicBlock
	for h := range loops {
		hs = append(hs, h)
	}
	sort.Slice(hs, func(i, j int) bool { return blockPos(hs[i]) < blockPos(hs[j]) })
	for i, h := range hs {
		loops[h].ord = i
	}
	return loops
}

func blockPos(b *ssa.BasicBlock) token.Pos {
	// position of the loop = smallest valid position of an instruction in the header or, failing that, its body
	best := token.NoPos
	var visit func(bb *ssa.BasicBlock)
	visit = func(bb *ssa.BasicBlock) {
		for _, in := range bb.Instrs {
			if p := in.Pos(); p.IsValid() && (best == token.NoPos || p < best) {
				best = p
			}
		}
	}
	visit(b)
	if best == token.NoPos {
		for _, p := range b.Preds {
			visit(p)
		}
		for _, s := range b.Succs {
			if s != b && s.Dominates(b) {
				continue // exit edge to the header of an enclosing loop
			}
			visit(s)
		}
	}
	if best == token.NoPos {
		return token.Pos(1<<30 + b.Index)
	}
	return best
}

// rpo returns blocks in reverse post-order of the CFG without back edges.
func rpo(fn *ssa.Function) []*ssa.BasicBlock {
	seen := map[*ssa.BasicBlock]bool{}
	var post []*ssa.BasicBlock
	var dfs func(b *ssa.BasicBlock)
	dfs = func(b *ssa.BasicBlock) {
		seen[b] = true
		for _, s := range b.Succs {
			if !seen[s] && !isBackEdge(b, s) {
				dfs(s)
			}
		}
		post = append(post, b)
	}
	dfs(fn.Blocks[0])
	for i, j := 0, len(post)-1; i < j; i, j = i+1, j-1 {
		post[i], post[j] = post[j], post[i]
	}
	return post
}

// modified computes what a loop may assign: locals and heap variable keys.
func (fc *FnCtx) modified(li *loopInfo) (locals map[*ssa.Alloc]bool, heaps map[string]bool, all bool) {
	locals = map[*ssa.Alloc]bool{}
	heaps = map[string]bool{}
	var rootOf func(v ssa.Value) (al *ssa.Alloc, key string)
	rootOf = func(v ssa.Value) (*ssa.Alloc, string) {
		switch x := v.(type) {
		case *ssa.Alloc:
			el := x.Type().(*types.Pointer).Elem()
			if !x.Heap {
				return x, ""
			}
			if _, ok := el.Underlying().(*types.Struct); ok {
				return nil, "S|" + fc.eng.typeName(el)
			}
			if _, ok := el.Underlying().(*types.Array); ok {
				return nil, fc.elemKey(el.Underlying().(*types.Array).Elem())
			}
			return nil, fc.boxKey(el)
		case *ssa.FieldAddr:
			pt := x.X.Type().Underlying().(*types.Pointer).Elem()
			switch x.X.(type) {
			case *ssa.FieldAddr, *ssa.IndexAddr:
				return rootOf(x.X)
			case *ssa.Alloc:
				if !x.X.(*ssa.Alloc).Heap {
					return rootOf(x.X)
				}
			}
			return nil, fc.fieldKey(pt, x.Field)
		case *ssa.IndexAddr:
			switch t := x.X.Type().Underlying().(type) {
			case *types.Slice:
				return nil, fc.elemKey(t.Elem())
			case *types.Pointer:
				return nil, fc.elemKey(t.Elem().Underlying().(*types.Array).Elem())
			}
		case *ssa.Global:
			return nil, fc.globalKey(x)
		case *ssa.FreeVar:
			el := x.Type().(*types.Pointer).Elem()
			if _, ok := el.Underlying().(*types.Struct); ok {
				return nil, "S|" + fc.eng.typeName(el)
			}
			return nil, fc.boxKey(el)
		}
		// pointer from elsewhere (parameter, load, call result)
		if pt, ok := v.Type().Underlying().(*types.Pointer); ok {
			el := pt.Elem()
			if _, ok := el.Underlying().(*types.Struct); ok {
				return nil, "S|" + fc.eng.typeName(el)
			}
			return nil, fc.boxKey(el)
		}
		return nil, "*"
	}
	addKey := func(k string) {
		if k == "*" {
			all = true
			return
		}
		if strings.HasPrefix(k, "S|") {
			// all fields of the struct type
			for _, hk := range fc.hvOrder {
				if strings.HasPrefix(hk, "F|"+k[2:]+".") {
					heaps[hk] = true
				}
			}
			heaps[k] = true // resolved lazily (fields declared later)
			return
		}
		heaps[k] = true
	}
	for b := range li.blocks {
		for _, in := range b.Instrs {
			switch x := in.(type) {
			case *ssa.Store:
				al, k := rootOf(x.Addr)
				if al != nil {
					locals[al] = true
					if al2, ok := x.Addr.(*ssa.Alloc); ok {
						for _, g := range fc.anchorGhostsFn(in.Parent(), "assign "+al2.Comment) {
							heaps[fc.ghostKey(g)] = true
						}
					}
				} else {
					addKey(k)
				}
			case *ssa.Alloc:
				if !x.Heap {
					locals[x] = true
				}
			case *ssa.MapUpdate:
				m := x.Map.Type().Underlying().(*types.Map)
				d, v, l := fc.mapKeys(m)
				heaps[d], heaps[v], heaps[l] = true, true, true
				n := 0
				for _, bb := range in.Parent().Blocks {
					for _, in2 := range bb.Instrs {
						if mu, ok := in2.(*ssa.MapUpdate); ok {
							if mu == x {
								for _, g := range fc.anchorGhostsFn(in.Parent(), fmt.Sprintf("mapupdate#%d", n)) {
									heaps[fc.ghostKey(g)] = true
								}
							}
							n++
						}
					}
				}
			case *ssa.Range:
				heaps[fc.iterKey(x)] = true
			case *ssa.Next:
				if r, ok := x.Iter.(*ssa.Range); ok {
					heaps[fc.iterKey(r)] = true
				}
			case ssa.CallInstruction:
				if _, isDefer := in.(*ssa.Defer); isDefer {
					fc.errorf("defer inside a loop is not supported")
				}
				if b, ok := x.Common().Value.(*ssa.Builtin); ok && b.Name() == "close" && fc.eng.ghosts["ChClosed"] != nil && !fc.eng.lockMode {
					heaps[fc.ghostKey("ChClosed")] = true
				}
				ks, a := fc.calleeFrameKeys(x.Common())
				if a {
					all = true
				}
				for _, k := range ks {
					addKey(k)
				}
				// ghost variables assigned by clauses anchored at this call
				for _, g := range fc.anchorGhosts(fc.callAnchorIn(in.Parent(), x.Common())) {
					heaps[fc.ghostKey(g)] = true
				}
			case *ssa.Send, *ssa.Select:
				// (ghosts assigned at send#/select# anchors inside loops are not supported: none so far)
				// interference at blocking operations is not modelled (sequential semantics of the
				// activation): contracts that read shared state across a blocking operation name the
				// single-writer assumption they rely on
			}
		}
	}
	return
}

func (fc *FnCtx) iterKey(r *ssa.Range) string {
	key := fmt.Sprintf("IT|%s.%s", fc.eng.fnName(r.Parent()), r.Name())
	ks := sortStr
	if m, ok := r.X.Type().Underlying().(*types.Map); ok {
		ks = fc.sorts.SortOf(m.Key())
	}
	fc.heapVarOf(key, fmt.Sprintf("(Array %s Bool)", ks), "iter", nil)
	return key
}

func (fc *FnCtx) havocLoop(st *State, li *loopInfo) {
	locals, heaps, all := fc.modified(li)
	for al := range locals {
		if _, ok := st.locals[al]; ok {
			el := al.Type().(*types.Pointer).Elem()
			v := fc.fresh(st, "hv."+al.Comment, el)
			st.locals[al] = v.T
		}
	}
	var keys []string
	if all {
		keys = append(keys, fc.hvOrder...)
	} else {
		for k := range heaps {
			if strings.HasPrefix(k, "S|") {
				for _, hk := range fc.hvOrder {
					if strings.HasPrefix(hk, "F|"+k[2:]+".") {
						keys = append(keys, hk)
					}
				}
				continue
			}
			keys = append(keys, k)
		}
		sort.Strings(keys)
	}
	for _, k := range keys {
		h := fc.hv[k]
		if h == nil {
			continue
		}
		if h.kind == "global" && !all {
			// globals written explicitly only
		}
		st.heap[k] = fc.sc.Fresh(h.name, h.sort)
	}
	na := fc.sc.Fresh("alloc", "Int")
	fc.assume(st, app(">=", na, st.alloc))
	st.alloc = na
}

// ---- function execution ----

type frame struct {
	fn      *ssa.Function
	regs    map[ssa.Value]Val
	loops   map[*ssa.BasicBlock]*loopInfo
	rets    []retInfo
	con     *Contract // contract whose loop specs apply (nil for inlined closures: looked up by name)
	top     bool
	env     *specEnvBase
}

func (fc *FnCtx) execBody(fn *ssa.Function, st0 *State, params []Val, freeVars []Val, top bool, con *Contract) []retInfo {
	if len(fn.Blocks) == 0 {
		fc.errorf("function %s has no body", fn)
		return nil
	}
	saveRegs, saveFn := fc.regs, fc.curFn
	fc.regs = map[ssa.Value]Val{}
	fc.curFn = fn
	defer func() { fc.regs, fc.curFn = saveRegs, saveFn }()
	for i, p := range fn.Params {
		fc.regs[p] = params[i]
	}
	for i, fv := range fn.FreeVars {
		fc.regs[fv] = freeVars[i]
	}
	fr := &frame{fn: fn, regs: fc.regs, loops: findLoops(fn), top: top, con: con}
	if top {
		for h, li := range fr.loops {
			fc.note("loop %d: header block %d (%s) at %s", li.ord, h.Index, h.Comment, fc.eng.pos(blockPos(h)))
		}
	}
	order := rpo(fn)
	incoming := map[*ssa.BasicBlock][]inEdge{}
	st0.defers = nil
	incoming[fn.Blocks[0]] = []inEdge{{nil, st0}}
	for _, b := range order {
		ins := incoming[b]
		if len(ins) == 0 {
			continue
		}
		var st *State
		li := fr.loops[b]
		st = fc.merge(ins)
		// phis
		for _, in := range b.Instrs {
			phi, ok := in.(*ssa.Phi)
			if !ok {
				break
			}
			var t string
			first := true
			for i := len(ins) - 1; i >= 0; i-- {
				idx := -1
				for j, p := range b.Preds {
					if p == ins[i].pred {
						idx = j
					}
				}
				if idx < 0 {
					fc.errorf("phi predecessor not found")
					continue
				}
				v := fc.val(phi.Edges[idx])
				if first {
					t = v.T
					first = false
				} else {
					t = ite(ins[i].st.pc, v.T, t)
				}
			}
			fc.regs[phi] = fc.mkVal(fc.sc.Define("phi", fc.sorts.SortOf(phi.Type()), t), phi.Type())
		}
		if li != nil {
			fc.loopEntry(fr, st, li)
		}
		if st.pc == "false" {
			continue
		}
		// instructions
		alive := true
		for _, in := range b.Instrs {
			if _, ok := in.(*ssa.Phi); ok {
				continue
			}
			fc.waitCheckInstr(st, in)
			fc.reachBefore(st, in)
			okInstr := fc.execInstr(fr, st, in, b, incoming)
			fc.reachAfter(st, in)
			if !okInstr {
				alive = false
				break
			}
			if fc.unsupported && len(fc.errs) > 20 {
				return nil
			}
		}
		_ = alive
	}
	return fr.rets
}

func (fc *FnCtx) sendTo(fr *frame, st *State, from, to *ssa.BasicBlock, incoming map[*ssa.BasicBlock][]inEdge) {
	if st.pc == "false" {
		return
	}
	if isBackEdge(from, to) {
		fc.loopBack(fr, st, fr.loops[to])
		return
	}
	// a rotated loop (test at the end of the body) is left from its latch block: the invariant is
	// then needed in the state after the body although the back edge is not taken. It is checked
	// there (loopN.invK.exit) and assumed on the exit edge.
	for _, s2 := range from.Succs {
		// only the compiler's rotated form of `for i := range n` (latch -> rangeint.done): an early
		// return or break from a block that also has a back edge is not a place where the invariant holds
		if s2 != to && isBackEdge(from, s2) && to.Comment == "rangeint.done" && s2.Comment == "rangeint.body" {
			if li := fr.loops[s2]; li != nil && !li.blocks[to] {
				if ls := fc.loopSpec(fr, li); ls != nil {
					env := fc.loopEnv(fr, st, li)
					for i, inv := range ls.Invariants {
						g := fc.evalBool(env, inv)
						fc.oblige(st, fmt.Sprintf("loop%d.inv%d.exit", li.ord, i), g, blockPos(li.header), inv.Text+" (on leaving the loop after an iteration)")
						fc.assume(st, g)
					}
				}
			}
		}
	}
	incoming[to] = append(incoming[to], inEdge{from, st})
}

func (fc *FnCtx) loopSpec(fr *frame, li *loopInfo) *LoopSpec {
	var con *Contract
	if fr.con != nil {
		con = fr.con
	} else {
		con = fc.eng.contracts[fc.eng.fnName(fr.fn)]
	}
	if con == nil {
		return nil
	}
	return con.Loops[li.ord]
}

func (fc *FnCtx) loopEntry(fr *frame, st *State, li *loopInfo) {
	ls := fc.loopSpec(fr, li)
	auto := fc.autoInvariants(fr, li)
	if ls == nil && len(auto) == 0 {
		fc.note("loop %d of %s has no invariant (havoc only)", li.ord, fc.eng.fnName(fr.fn))
	}
	pre := st.clone()
	env := fc.loopEnv(fr, pre, li)
	if ls != nil {
		for i, inv := range ls.Invariants {
			g := fc.evalBool(env, inv)
			fc.oblige(pre, fmt.Sprintf("loop%d.inv%d.entry", li.ord, i), g, blockPos(li.header), inv.Text)
		}
	}
	for _, g := range fc.frameGoals(pre) {
		fc.oblige(pre, fmt.Sprintf("loop%d.frame.entry", li.ord), g.goal, blockPos(li.header), g.text)
	}
	fc.havocLoop(st, li)
	env2 := fc.loopEnv(fr, st, li)
	for _, a := range auto {
		fc.assume(st, a(st))
	}
	// the function's frame is an invariant of every loop (checked at entry and on the back edge)
	for _, g := range fc.frameGoals(st) {
		fc.assume(st, g.goal)
		if g.atForm != "" {
			fc.assume(st, g.atForm)
		}
	}
	if ls != nil {
		for _, inv := range ls.Invariants {
			fc.assume(st, fc.evalBool(env2, inv))
		}
		if ls.Decreases != nil {
			d := fc.evalSpec(env2, ls.Decreases.Expr)
			li2 := li
			_ = li2
			fc.loopDec(fr, li, fc.sc.Define("dec", "Int", d.T))
		}
	}
}

func (fc *FnCtx) loopDec(fr *frame, li *loopInfo, t string) {
	if fc.loopDecs == nil {
		fc.loopDecs = map[*loopInfo]string{}
	}
	fc.loopDecs[li] = t
}

func (fc *FnCtx) loopBack(fr *frame, st *State, li *loopInfo) {
	ls := fc.loopSpec(fr, li)
	for _, g := range fc.frameGoals(st) {
		fc.oblige(st, fmt.Sprintf("loop%d.frame.preserved", li.ord), g.goal, blockPos(li.header), g.text)
	}
	if ls == nil {
		return
	}
	env := fc.loopEnv(fr, st, li)
	for i, inv := range ls.Invariants {
		g := fc.evalBool(env, inv)
		fc.oblige(st, fmt.Sprintf("loop%d.inv%d.preserved", li.ord, i), g, blockPos(li.header), inv.Text)
	}
	if ls.Decreases != nil {
		d := fc.evalSpec(env, ls.Decreases.Expr)
		d0 := fc.loopDecs[li]
		fc.oblige(st, fmt.Sprintf("loop%d.decreases", li.ord), and(app("<", d.T, d0), app("<=", "0", d0)), blockPos(li.header), ls.Decreases.Text)
	}
}

// autoInvariants: bounds of compiler-generated range indices.
func (fc *FnCtx) autoInvariants(fr *frame, li *loopInfo) []func(*State) string {
	var res []func(*State) string
	// pattern: header: t9 = *rangeindex; t10 = t9+1; *rangeindex = t10; t11 = t10 < tLen
	h := li.header
	var idxAlloc *ssa.Alloc
	var lim ssa.Value
	lowest := "(- 1)"
	for _, in := range h.Instrs {
		if st, ok := in.(*ssa.Store); ok {
			if al, ok := st.Addr.(*ssa.Alloc); ok && (al.Comment == "rangeindex" || al.Comment == "rangeint.iter") {
				idxAlloc = al
				if al.Comment == "rangeint.iter" {
					// for i := range n: the header is the body; 0 <= iter < n there
					lowest = "0"
				}
			}
		}
		if bo, ok := in.(*ssa.BinOp); ok && bo.Op == token.LSS && idxAlloc != nil {
			lim = bo.Y
		}
	}
	if idxAlloc != nil && lim != nil {
		if lv, ok := fc.regs[lim]; ok || isConst(lim) {
			if !ok {
				lv = fc.val(lim)
			}
			al := idxAlloc
			res = append(res, func(st *State) string {
				return and(app("<=", lowest, st.locals[al]), app("<", st.locals[al], lv.T), app("<=", "0", lv.T))
			})
			// note: rangeindex < len holds at the head because the body only runs when index+1 < len
		}
	}
	return res
}

func isConst(v ssa.Value) bool { _, ok := v.(*ssa.Const); return ok }
