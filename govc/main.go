package main

import (
	"encoding/json"
	"flag"
	"fmt"
	"os"
	"path/filepath"
	"regexp"
	"sort"
	"strings"
	"time"
)

type Output struct {
	Repo      string        `json:"repo"`
	Functions []*FuncResult `json:"functions"`
	Errors    []string      `json:"errors,omitempty"`
	LoadS     float64       `json:"load_s"`
	GenS      float64       `json:"gen_s"`
	SolveS    float64       `json:"solve_s"`
	Trusted   []string      `json:"trusted_contracts"`
	Solvers   []string      `json:"solvers"`
}

func main() {
	repo := flag.String("repo", "/repo", "repository root")
	lib := flag.String("lib", "", "library spec dir (default: <exe dir>/../govc/lib)")
	out := flag.String("out", "", "JSON output file")
	timeout := flag.Int("timeout", 10, "per-obligation solver timeout (s)")
	funcs := flag.String("funcs", "", "regexp selecting functions (by short name)")
	props := flag.String("props", "", "comma separated property ids; selects contracts tagged with them")
	dump := flag.String("dump", "", "directory to dump SMT files of non-discharged obligations")
	dumpAll := flag.Bool("dumpall", false, "dump every obligation")
	workers := flag.Int("workers", 5, "parallel obligations")
	both := flag.Bool("both", false, "require two solvers to agree where both terminate")
	seed := flag.Int("seed", 0, "solver seed")
	sweep := flag.Bool("sweep", false, "also verify selected functions without contract (safety obligations only)")
	tags := flag.String("tags", "verif", "build tags")
	gen := flag.Bool("genonly", false, "generate obligations only")
	verbose := flag.Bool("v", false, "verbose")
	flag.BoolVar(&cover, "cover", false, "extra vacuity (cover) checks")
	locks := flag.Bool("locks", false, "generate lock-discipline obligations (guarded fields, lock balance, wait levels)")
	kinds := flag.String("kinds", "", "regexp: keep only obligations whose kind matches (after generation)")
	noretry := flag.String("noretry", "", "regexp: obligation names that are not retried (listed known findings)")
	flag.Parse()
	if *lib == "" {
		exe, _ := os.Executable()
		*lib = filepath.Join(filepath.Dir(exe), "..", "govc", "lib")
	}
	t0 := time.Now()
	eng, err := loadEngine(*repo, *tags)
	if err != nil {
		fmt.Fprintln(os.Stderr, "govc: load:", err)
		os.Exit(2)
	}
	pre, err := os.ReadFile(filepath.Join(*lib, "..", "prelude.smt2"))
	if err != nil {
		fmt.Fprintln(os.Stderr, "govc: prelude:", err)
		os.Exit(2)
	}
	eng.lockMode = *locks
	if *noretry != "" {
		noRetry = regexp.MustCompile(*noretry)
	}
	if err := eng.loadAllContracts(*lib); err != nil {
		fmt.Fprintln(os.Stderr, "govc: contracts:", err)
		os.Exit(2)
	}
	for _, l := range strings.Split(string(pre), "\n") {
		eng.registerSpecFn(l)
	}
	o := &Output{Repo: *repo, LoadS: time.Since(t0).Seconds()}
	for _, s := range solvers {
		o.Solvers = append(o.Solvers, s.name)
	}
	var fre *regexp.Regexp
	if *funcs != "" {
		fre = regexp.MustCompile(*funcs)
	}
	wantProps := map[string]bool{}
	for _, p := range strings.Split(*props, ",") {
		if p = strings.TrimSpace(p); p != "" {
			wantProps[p] = true
		}
	}
	sel := func(name string, ps []string) bool {
		if fre != nil && !fre.MatchString(name) {
			return false
		}
		if len(wantProps) > 0 {
			for _, p := range ps {
				if wantProps[p] {
					return true
				}
			}
			return false
		}
		return true
	}
	t1 := time.Now()
	// lemmas are generated first (their datatypes must be known to every function context)
	lemRes := map[*Lemma]*FuncResult{}
	for _, lm := range eng.lemmas {
		lemRes[lm] = eng.verifyLemma(lm)
	}
	var names []string
	for n := range eng.contracts {
		names = append(names, n)
	}
	sort.Strings(names)
	done := map[string]bool{}
	for _, n := range names {
		c := eng.contracts[n]
		if c.Trusted {
			o.Trusted = append(o.Trusted, n+" ["+c.TrustedWhy+"]")
		}
		if c.Trusted && !c.Lib && c.Sig != nil && len(c.Extra["body_ensures"]) > 0 && !*locks {
			// a contract trusted at call sites (its ghost-state clauses speak about another goroutine)
			// whose body is still checked against the clauses that are about this activation alone
			if fn := eng.allFuncs[n]; fn != nil && sel(n, c.Props) {
				bc := &Contract{Name: c.Name, ParamNames: c.ParamNames, Results: c.Results, Requires: append(append([]*Clause(nil), c.Requires...), c.Extra["body_requires"]...),
					Ensures: c.Extra["body_ensures"], Holds: c.Holds, Extra: c.Extra, Loops: c.Loops, Pkg: c.Pkg, Sig: c.Sig, Props: c.Props, File: c.File, Line: c.Line,
					HasAssigns: true, Assigns: []*AssignTarget{{Kind: "everything"}}}
				done[n] = true
				o.Functions = append(o.Functions, eng.verifyFunction(fn, bc))
			}
			continue
		}
		if c.Lib || c.Trusted || c.Sig == nil || c.Inline {
			continue
		}
		fn := eng.allFuncs[n]
		if fn == nil || !sel(n, c.Props) {
			continue
		}
		done[n] = true
		o.Functions = append(o.Functions, eng.verifyFunction(fn, c))
	}
	for _, m := range eng.missingContracts {
		nm := strings.SplitN(m, " ", 2)[0]
		c := eng.contracts[nm]
		if c != nil && sel(nm, c.Props) {
			o.Functions = append(o.Functions, &FuncResult{Name: nm, Props: c.Props, OutOfSubset: true,
				Errors: []string{"the contracted function does not exist in the current source (contract at " + m + "): the code changed under the contract"}})
		}
	}
	if *sweep {
		var all []string
		for n, fn := range eng.allFuncs {
			if eng.isRepoFunc(fn) && !done[n] && fn.Parent() == nil && len(fn.Blocks) > 0 && fn.Synthetic == "" {
				if c := eng.contracts[n]; c != nil && c.Trusted && !*locks {
					continue
				}
				if fre == nil || fre.MatchString(n) {
					all = append(all, n)
				}
			}
		}
		sort.Strings(all)
		for _, n := range all {
			var lc *Contract
			if c := eng.contracts[n]; c != nil && c.Trusted {
				// lock-discipline sweep of a function whose functional contract is trusted: only its
				// lock clauses apply to the body
				lc = &Contract{Name: c.Name, ParamNames: c.ParamNames, Results: c.Results, Holds: c.Holds, Extra: map[string][]*Clause{"holds_read": c.Extra["holds_read"], "serves": c.Extra["serves"], "blocks": c.Extra["blocks"]},
					Loops: map[int]*LoopSpec{}, Pkg: c.Pkg, Sig: c.Sig, Props: c.Props, HasAssigns: true, Assigns: []*AssignTarget{{Kind: "everything"}}}
			}
			o.Functions = append(o.Functions, eng.verifyFunction(eng.allFuncs[n], lc))
		}
	}
	if *kinds != "" {
		kre := regexp.MustCompile(*kinds)
		for _, f := range o.Functions {
			var keep []*Obligation
			for _, ob := range f.Obligations {
				if kre.MatchString(ob.Kind) {
					keep = append(keep, ob)
				}
			}
			f.Obligations = keep
			if f.OutOfSubset && len(f.Errors) > 0 {
				// in a kind-filtered sweep, unsupported constructs elsewhere in the function do not matter
				// unless they stopped the execution (then the obligations after that point are missing)
			}
		}
	}
	if len(wantProps) > 0 {
		// obligations tagged for one property (`assert@Cnn`) are kept only in runs for that property
		for _, f := range o.Functions {
			var keep []*Obligation
			for _, ob := range f.Obligations {
				ok := len(ob.Props) == 0
				for _, p := range ob.Props {
					if wantProps[p] {
						ok = true
					}
				}
				if ok {
					keep = append(keep, ob)
				}
			}
			f.Obligations = keep
		}
	}
	o.GenS = time.Since(t1).Seconds()
	var obs []*Obligation
	for _, f := range o.Functions {
		obs = append(obs, f.Obligations...)
	}
	t2 := time.Now()
	basePrelude := func() string {
		return string(pre) + strings.Join(eng.smtLines, "\n") + "\n" + strings.Join(eng.strLitDecls, "")
	}
	dir, _ := os.MkdirTemp("", "govc")
	defer os.RemoveAll(dir)
	// Lemmas are proved first, in file order; a proved lemma is an axiom for everything after it.
	axioms := ""
	fnAxioms := ""
	for _, lm := range eng.lemmas {
		r := lemRes[lm]
		if *locks {
			continue // lock and wait-level obligations do not depend on the spec theory's lemmas
		}
		if !*gen {
			dischargeAll(r.Obligations, basePrelude()+axiomMarker+axioms, dir, *timeout, *seed, *workers, *both)
		}
		ok := len(r.Obligations) > 0 && len(r.Errors) == 0
		for _, ob := range r.Obligations {
			if ob.Status != "discharged" {
				ok = false
			}
		}
		if ok {
			axioms += "; lemma " + lm.Name + "\n(assert " + lm.Formula + ")\n"
			if !lm.Local {
				fnAxioms += "; lemma " + lm.Name + "\n(assert " + lm.Formula + ")\n"
			}
		}
		if sel("lemma."+lm.Name, lm.Props) {
			o.Functions = append(o.Functions, r)
		}
	}
	eng.prelude = basePrelude() + axiomMarker + fnAxioms
	// an applied lemma that was not proved taints the functions that applied it
	proved := map[string]bool{}
	for _, lm := range eng.lemmas {
		if strings.Contains(axioms, "; lemma "+lm.Name+"\n") {
			proved[lm.Name] = true
		}
	}
	var tainted []*FuncResult
	for _, f := range o.Functions {
		for _, l := range f.UsedLemmas {
			if !proved[l] && !*gen && !*locks {
				tainted = append(tainted, f)
				f.Errors = append(f.Errors, "applies lemma "+l+" which was not proved in this run")
				f.OutOfSubset = true
			}
		}
	}
	{
		// vacuity guard for the theory itself: prelude + spec theory + proved lemmas must not be contradictory
		sc := newScript()
		// the proved lemmas mention datatypes declared in the headers of their own scripts
		for _, lm := range eng.lemmas {
			if proved[lm.Name] {
				for _, h := range lm.HeaderList {
					sc.Header(h, h)
				}
			}
		}
		th := &Obligation{Name: "theory/consistent#1", Func: "theory", Kind: "cover.theory", script: sc, pc: "true", goal: "false", Expect: "sat",
			GoalTxt: "prelude, spec theory and proved lemmas are not contradictory"}
		for p := range wantProps {
			th.Props = append(th.Props, p)
		}
		if !*gen {
			discharge(th, eng.prelude, dir, *timeout, *seed, false)
		}
		o.Functions = append(o.Functions, &FuncResult{Name: "theory", Obligations: []*Obligation{th}, IsLemma: true})
	}
	if !*gen {
		dischargeAll(obs, eng.prelude, dir, *timeout, *seed, *workers, *both)
	}
	for _, f := range o.Functions {
		if f.IsLemma {
			obs = append(obs, f.Obligations...)
		}
	}
	o.SolveS = time.Since(t2).Seconds()
	if *dump != "" {
		os.MkdirAll(*dump, 0755)
		for _, ob := range obs {
			if *dumpAll || (ob.Status != "discharged" && ob.Status != "cover-ok") {
				os.WriteFile(filepath.Join(*dump, sanitize(ob.Name)+".smt2"), []byte(ob.Text(eng.prelude, true)), 0644)
			}
		}
	}
	// an exit that cannot be reached (e.g. the error return after library calls that cannot fail in
	// the model) is not a vacuity problem as long as some exit of the function is reachable
	for _, f := range o.Functions {
		anyOK := false
		for _, ob := range f.Obligations {
			if ob.Kind == "cover.exit" && ob.Status == "cover-ok" {
				anyOK = true
			}
		}
		if anyOK {
			for _, ob := range f.Obligations {
				if ob.Kind == "cover.exit" && ob.Status == "cover-failed" {
					ob.Status = "cover-ok"
					ob.Detail = "this exit is unreachable under the contracts in force; another exit of the function is reachable"
				}
			}
		}
	}
	nd, nf := 0, 0
	for _, f := range o.Functions {
		for _, ob := range f.Obligations {
			switch ob.Status {
			case "discharged", "cover-ok":
				nd++
			default:
				nf++
				if *verbose || true {
					fmt.Printf("  %-14s %s  [%s] %s %s\n", ob.Status, ob.Name, ob.Pos, ob.GoalTxt, ob.Detail)
				}
			}
		}
		for _, e := range f.Errors {
			fmt.Printf("  ERROR %s: %s\n", f.Name, e)
		}
		if *verbose {
			for _, n := range f.Notes {
				fmt.Printf("  note %s: %s\n", f.Name, n)
			}
		}
	}
	fmt.Printf("govc: %d functions, %d obligations, %d discharged, %d not; load %.1fs gen %.1fs solve %.1fs\n", len(o.Functions), len(obs), nd, nf, o.LoadS, o.GenS, o.SolveS)
	if *out != "" {
		b, _ := json.MarshalIndent(o, "", " ")
		os.WriteFile(*out, b, 0644)
	}
}
