package main

// Evaluation of contract expressions (Go expression syntax + spec functions) to SMT terms
// in a symbolic state.

import (
	"fmt"
	"go/ast"
	"go/token"
	"go/types"
	"strconv"
	"strings"

	"golang.org/x/tools/go/ssa"
)

type specEnvBase struct{}

type specEnv struct {
	fc      *FnCtx
	st      *State
	old     *State
	vars    map[string]Val
	entry   map[string]Val // entry values of parameters (for old(x) inside loop invariants)
	pkg     *types.Package
	con     *Contract
	localFn *ssa.Function
	at      *ssa.BasicBlock
	inOld   bool
	cur     *State // the current state while evaluating inside old()
	nbind   int
	clause  *Clause
	macroDepth int
}

type specError struct{ msg string }

func (fc *FnCtx) evalBool(env *specEnv, c *Clause) (res string) {
	defer func() {
		if r := recover(); r != nil {
			if se, ok := r.(specError); ok {
				fc.errorf("spec error at %s: %s  [%s]", c.Pos, se.msg, c.Text)
				res = "false"
				return
			}
			panic(r)
		}
	}()
	env.clause = c
	v := fc.evalSpec(env, c.Expr)
	if v.Sort != sortBool {
		panic(specError{"expression is not boolean (sort " + v.Sort + ")"})
	}
	return v.T
}

func specFail(format string, a ...any) {
	panic(specError{fmt.Sprintf(format, a...)})
}

func (env *specEnv) with(st *State) *specEnv {
	n := *env
	n.st = st
	return &n
}

func goTypeOfSort(s string) types.Type {
	switch s {
	case sortInt:
		return types.Typ[types.Int]
	case sortBool:
		return types.Typ[types.Bool]
	case sortStr:
		return types.Typ[types.String]
	}
	return nil
}

func (fc *FnCtx) loopEnv(fr *frame, st *State, li *loopInfo) *specEnv {
	env := &specEnv{fc: fc, st: st, old: fc.entry, vars: map[string]Val{}, entry: fc.params, localFn: fr.fn, at: li.header}
	if fr.fn.Pkg != nil {
		env.pkg = fr.fn.Pkg.Pkg
	} else if fr.fn.Parent() != nil && fr.fn.Parent().Pkg != nil {
		env.pkg = fr.fn.Parent().Pkg.Pkg
	}
	if fr.fn != fc.fn {
		env.entry = nil
	}
	return env
}

// resolveLocal finds the Alloc a source identifier refers to at env.at.
func (env *specEnv) resolveLocal(name string) *ssa.Alloc {
	if env.localFn == nil {
		return nil
	}
	var best *ssa.Alloc
	ord := 0
	if i := strings.LastIndex(name, "__"); i > 0 {
		if n, err := strconv.Atoi(name[i+2:]); err == nil {
			ord = n
			name = name[:i]
		}
	}
	var cands []*ssa.Alloc
	for _, b := range env.localFn.Blocks {
		for _, in := range b.Instrs {
			if al, ok := in.(*ssa.Alloc); ok && (al.Comment == name || strings.ReplaceAll(al.Comment, ".", "_") == name) {
				cands = append(cands, al)
			}
		}
	}
	if ord > 0 {
		if ord <= len(cands) {
			return cands[ord-1]
		}
		return nil
	}
	for _, al := range cands {
		if env.at != nil && !(al.Block() == env.at || al.Block().Dominates(env.at)) {
			continue
		}
		if best == nil || al.Pos() > best.Pos() || (al.Pos() == best.Pos() && al.Block().Index > best.Block().Index) {
			best = al
		}
	}
	return best
}

func (fc *FnCtx) evalSpec(env *specEnv, e ast.Expr) Val {
	switch x := e.(type) {
	case *ast.ParenExpr:
		return fc.evalSpec(env, x.X)
	case *ast.BasicLit:
		switch x.Kind {
		case token.INT:
			return Val{T: x.Value, Sort: sortInt, Ty: types.Typ[types.Int]}
		case token.STRING:
			s, err := strconv.Unquote(x.Value)
			if err != nil {
				specFail("bad string literal %s", x.Value)
			}
			return Val{T: fc.strLit(s), Sort: sortStr, Ty: types.Typ[types.String]}
		case token.CHAR:
			s, _ := strconv.Unquote(x.Value)
			return Val{T: fmt.Sprint(int(s[0])), Sort: sortInt, Ty: types.Typ[types.Int]}
		}
		specFail("unsupported literal %s", x.Value)
	case *ast.Ident:
		return fc.evalIdent(env, x.Name)
	case *ast.SelectorExpr:
		// package-qualified global / const
		if id, ok := x.X.(*ast.Ident); ok {
			if _, isVar := env.vars[id.Name]; !isVar && env.resolveLocal(id.Name) == nil {
				if v, ok := fc.evalQualified(env, id.Name, x.Sel.Name); ok {
					return v
				}
			}
		}
		base := fc.evalSpec(env, x.X)
		return fc.selectField(env, base, x.Sel.Name)
	case *ast.IndexExpr:
		base := fc.evalSpec(env, x.X)
		idx := fc.evalSpec(env, x.Index)
		return fc.indexVal(env, base, idx)
	case *ast.SliceExpr:
		base := fc.evalSpec(env, x.X)
		lo, hi := "0", ""
		if x.Low != nil {
			lo = fc.evalSpec(env, x.Low).T
		}
		if base.Sort == sortStr {
			hi = app("slen", base.T)
			if x.High != nil {
				hi = fc.evalSpec(env, x.High).T
			}
			return Val{T: app("sslice", base.T, lo, hi), Sort: sortStr, Ty: types.Typ[types.String]}
		}
		if base.Sort == sortSlice {
			hi = app("len", base.T)
			if x.High != nil {
				hi = fc.evalSpec(env, x.High).T
			}
			return Val{T: app("mk_slice", app("arr", base.T), app("+", app("off", base.T), lo), app("-", hi, lo), app("-", app("cap", base.T), lo)), Sort: sortSlice, Ty: base.Ty}
		}
		specFail("slice expression on sort %s", base.Sort)
	case *ast.StarExpr:
		p := fc.evalSpec(env, x.X)
		return fc.derefVal(env, p)
	case *ast.UnaryExpr:
		if id, ok := x.X.(*ast.Ident); ok && x.Op == token.AND {
			// &local for a local that lives in the heap (new T): the pointer itself
			if _, shadow := env.vars[id.Name]; !shadow {
				if al := env.resolveLocal(id.Name); al != nil && al.Heap {
					if rv, ok := fc.regs[al]; ok {
						return rv
					}
				}
			}
		}
		v := fc.evalSpec(env, x.X)
		switch x.Op {
		case token.NOT:
			return Val{T: not(v.T), Sort: sortBool, Ty: types.Typ[types.Bool]}
		case token.SUB:
			return Val{T: app("-", v.T), Sort: v.Sort, Ty: v.Ty}
		case token.AND:
			return v
		}
		specFail("unsupported unary %v", x.Op)
	case *ast.BinaryExpr:
		return fc.evalBinary(env, x)
	case *ast.CallExpr:
		return fc.evalCall(env, x)
	case *ast.TypeAssertExpr:
		v := fc.evalSpec(env, x.X)
		t := fc.resolveType(env, x.Type)
		return fc.mkVal(fc.sorts.Unbox(t, v.T), t)
	case *ast.CompositeLit:
		t := fc.resolveType(env, x.Type)
		if len(x.Elts) == 0 {
			return fc.mkVal(fc.sorts.Zero(t), t)
		}
		specFail("composite literals with fields are not supported in specs")
	}
	specFail("unsupported spec expression %T", e)
	return Val{}
}

func (fc *FnCtx) resolveType(env *specEnv, e ast.Expr) types.Type {
	switch x := e.(type) {
	case *ast.Ident:
		if t := fc.eng.lookupNamedType(env.pkg, "", x.Name); t != nil {
			return t
		}
	case *ast.SelectorExpr:
		if id, ok := x.X.(*ast.Ident); ok {
			if t := fc.eng.lookupNamedType(env.pkg, id.Name, x.Sel.Name); t != nil {
				return t
			}
		}
	case *ast.StarExpr:
		return types.NewPointer(fc.resolveType(env, x.X))
	case *ast.ArrayType:
		if x.Len == nil {
			return types.NewSlice(fc.resolveType(env, x.Elt))
		}
	}
	specFail("cannot resolve type %v", e)
	return nil
}

func (fc *FnCtx) evalIdent(env *specEnv, name string) Val {
	switch name {
	case "true":
		return Val{T: "true", Sort: sortBool, Ty: types.Typ[types.Bool]}
	case "false":
		return Val{T: "false", Sort: sortBool, Ty: types.Typ[types.Bool]}
	case "nil":
		return Val{T: "nil", Sort: "Nil"}
	}
	if v, ok := env.vars[name]; ok {
		return v
	}
	if env.inOld && env.entry != nil {
		if v, ok := env.entry[name]; ok {
			return v
		}
	}
	if al := env.resolveLocal(name); al != nil && !env.inOld {
		el := al.Type().(*types.Pointer).Elem()
		if !al.Heap {
			t, ok := env.st.locals[al]
			if !ok {
				specFail("local %s is not initialised here", name)
			}
			return fc.mkVal(t, el)
		}
		rv, ok := fc.regs[al]
		if !ok {
			specFail("local %s is not allocated here", name)
		}
		if _, isStruct := el.Underlying().(*types.Struct); isStruct {
			return fc.mkVal(fc.loadStructObj(env.st, rv.T, el), el)
		}
		if arr, isArr := el.Underlying().(*types.Array); isArr {
			return fc.mkVal(app("select", fc.heapGet(env.st, fc.elemKey(arr.Elem())), rv.T), el)
		}
		return fc.mkVal(app("select", fc.heapGet(env.st, fc.boxKey(el)), rv.T), el)
	}
	if env.entry != nil {
		if v, ok := env.entry[name]; ok {
			return v
		}
	}
	if name == "seen" && env.localFn != nil {
		// visited set of the nearest dominating map range
		var best *ssa.Range
		for _, b := range env.localFn.Blocks {
			for _, in := range b.Instrs {
				if r, ok := in.(*ssa.Range); ok && (env.at == nil || b == env.at || b.Dominates(env.at)) {
					if best == nil || r.Pos() > best.Pos() {
						best = r
					}
				}
			}
		}
		if best != nil {
			k := fc.iterKey(best)
			return Val{T: fc.heapGet(env.st, k), Sort: fc.hv[k].sort}
		}
	}
	if g, ok := fc.eng.ghosts[name]; ok {
		k := fc.ghostKey(name)
		gs := fc.ghostSort(g.Sort)
		return Val{T: fc.heapGet(env.st, k), Sort: gs, Ty: goTypeOfSort(gs)}
	}
	if sf, ok := fc.eng.specFns[name]; ok && len(sf.Args) == 0 {
		return Val{T: name, Sort: sf.Res, Ty: goTypeOfSort(sf.Res)}
	}
	if name == "zeroIntArray" {
		return Val{T: "((as const (Array Int Int)) 0)", Sort: "(Array Int Int)"}
	}
	if name == "alloc" {
		return Val{T: env.st.alloc, Sort: sortInt, Ty: types.Typ[types.Int]}
	}
	// package-level objects
	if env.pkg != nil {
		if v, ok := fc.evalQualified(env, env.pkg.Name(), name); ok {
			return v
		}
	}
	specFail("unknown identifier %s", name)
	return Val{}
}

func (fc *FnCtx) evalQualified(env *specEnv, pkgName, name string) (Val, bool) {
	for _, p := range fc.eng.prog.AllPackages() {
		if p.Pkg.Name() != pkgName {
			continue
		}
		if env.pkg != nil && p.Pkg != env.pkg {
			// must be imported by or equal to the contract's package; accept any loaded package of that name
		}
		switch m := p.Members[name].(type) {
		case *ssa.Global:
			k := fc.globalKey(m)
			t := m.Type().(*types.Pointer).Elem()
			return fc.mkVal(fc.heapGet(env.st, k), t), true
		case *ssa.NamedConst:
			return fc.constVal(m.Value), true
		}
	}
	return Val{}, false
}

func findField(t types.Type, name string) (path []int, ok bool) {
	st, isStruct := t.Underlying().(*types.Struct)
	if !isStruct {
		return nil, false
	}
	for i := 0; i < st.NumFields(); i++ {
		if st.Field(i).Name() == name {
			return []int{i}, true
		}
	}
	for i := 0; i < st.NumFields(); i++ {
		if st.Field(i).Embedded() {
			ft := st.Field(i).Type()
			if p, ok := ft.Underlying().(*types.Pointer); ok {
				ft = p.Elem()
			}
			if sub, ok := findField(ft, name); ok {
				return append([]int{i}, sub...), true
			}
		}
	}
	return nil, false
}

func (fc *FnCtx) selectField(env *specEnv, base Val, name string) Val {
	if base.Ty == nil {
		specFail("selector .%s on a value without Go type (sort %s)", name, base.Sort)
	}
	t := base.Ty
	cur := base
	if p, ok := t.Underlying().(*types.Pointer); ok {
		t = p.Elem()
	}
	path, ok := findField(t, name)
	if !ok {
		specFail("type %s has no field %s", fc.eng.typeName(base.Ty), name)
	}
	for _, idx := range path {
		ct := cur.Ty
		if p, ok := ct.Underlying().(*types.Pointer); ok {
			owner := p.Elem()
			st := owner.Underlying().(*types.Struct)
			fty := st.Field(idx).Type()
			if cur.Addr != nil {
				a := *cur.Addr
				a.Path = append(append([]pathStep(nil), a.Path...), pathStep{owner, idx})
				a.Ty = fty
				lv := fc.load(env.st.clone(), &a)
				cur = fc.mkVal(lv.T, fty)
			} else {
				cur = fc.mkVal(app("select", fc.heapGet(env.st, fc.fieldKey(owner, idx)), cur.T), fty)
			}
			continue
		}
		st, ok := ct.Underlying().(*types.Struct)
		if !ok {
			specFail("selector on non-struct %s", fc.eng.typeName(ct))
		}
		info := fc.sorts.structInfoOf(ct)
		cur = fc.mkVal(app(info.fields[idx], cur.T), st.Field(idx).Type())
	}
	return cur
}

func (fc *FnCtx) derefVal(env *specEnv, p Val) Val {
	pt, ok := p.Ty.Underlying().(*types.Pointer)
	if !ok {
		specFail("deref of non-pointer")
	}
	el := pt.Elem()
	if p.Addr != nil {
		return fc.load(env.st.clone(), p.Addr)
	}
	if _, ok := el.Underlying().(*types.Struct); ok {
		return fc.mkVal(fc.loadStructObj(env.st, p.T, el), el)
	}
	return fc.mkVal(app("select", fc.heapGet(env.st, fc.boxKey(el)), p.T), el)
}

func (fc *FnCtx) indexVal(env *specEnv, base, idx Val) Val {
	if base.Ty != nil {
		switch t := base.Ty.Underlying().(type) {
		case *types.Slice:
			k := fc.elemKey(t.Elem())
			return fc.mkVal(app(fc.atFn(t.Elem()), fc.heapGet(env.st, k), app("arr", base.T), app("off", base.T), idx.T), t.Elem())
		case *types.Basic:
			if t.Info()&types.IsString != 0 {
				return Val{T: app("sat", base.T, idx.T), Sort: sortInt, Ty: types.Typ[types.Int]}
			}
		case *types.Map:
			_, vl, _ := fc.mapKeys(t)
			return fc.mkVal(app("select", app("select", fc.heapGet(env.st, vl), base.T), idx.T), t.Elem())
		case *types.Array:
			return fc.mkVal(app("select", base.T, idx.T), t.Elem())
		}
	}
	if strings.HasPrefix(base.Sort, "(Array ") {
		// spec-level array: result sort is the last component
		parts := splitSexprs(base.Sort[1 : len(base.Sort)-1])
		rs := parts[len(parts)-1]
		ty := goTypeOfSort(rs)
		if ty == nil {
			ty = fc.sorts.bySort[rs]
		}
		return Val{T: app("select", base.T, idx.T), Sort: rs, Ty: ty}
	}
	if base.Sort == sortStr {
		return Val{T: app("sat", base.T, idx.T), Sort: sortInt, Ty: types.Typ[types.Int]}
	}
	specFail("index on sort %s", base.Sort)
	return Val{}
}

func (fc *FnCtx) nilOf(other Val) string {
	switch other.Sort {
	case sortInt:
		return "0"
	case sortSlice:
		return "slice_nil"
	case sortIface:
		return "iface_nil"
	}
	specFail("nil compared with sort %s", other.Sort)
	return ""
}

func (fc *FnCtx) evalBinary(env *specEnv, x *ast.BinaryExpr) Val {
	a := fc.evalSpec(env, x.X)
	b := fc.evalSpec(env, x.Y)
	boolV := func(t string) Val { return Val{T: t, Sort: sortBool, Ty: types.Typ[types.Bool]} }
	switch x.Op {
	case token.LAND:
		return boolV(and(a.T, b.T))
	case token.LOR:
		return boolV(or(a.T, b.T))
	case token.EQL, token.NEQ:
		var e string
		switch {
		case a.Sort == "Nil" && b.Sort == "Nil":
			e = "true"
		case b.Sort == "Nil":
			if a.Sort == sortSlice {
				e = eq(app("arr", a.T), "0")
			} else {
				e = eq(a.T, fc.nilOf(a))
			}
		case a.Sort == "Nil":
			if b.Sort == sortSlice {
				e = eq(app("arr", b.T), "0")
			} else {
				e = eq(b.T, fc.nilOf(b))
			}
		default:
			if a.Sort != b.Sort {
				specFail("comparison of different sorts %s and %s", a.Sort, b.Sort)
			}
			e = eq(a.T, b.T)
			if a.Sort == sortBool && (hasQuant(a.T) || hasQuant(b.T)) {
				// an equivalence with quantifiers inside is easier for the solvers as two implications
				e = and(implies(a.T, b.T), implies(b.T, a.T))
			}
		}
		if x.Op == token.NEQ {
			e = not(e)
		}
		return boolV(e)
	case token.LSS, token.LEQ, token.GTR, token.GEQ:
		sym := map[token.Token]string{token.LSS: "<", token.LEQ: "<=", token.GTR: ">", token.GEQ: ">="}[x.Op]
		if a.Sort == sortStr {
			return boolV(app(sym, app("strord", a.T), app("strord", b.T)))
		}
		if a.Sort == sortFloat {
			return boolV(app("float_"+map[string]string{"<": "lt", "<=": "le", ">": "gt", ">=": "ge"}[sym], a.T, b.T))
		}
		return boolV(app(sym, a.T, b.T))
	case token.ADD:
		if a.Sort == sortStr {
			return Val{T: app("scat", a.T, b.T), Sort: sortStr, Ty: a.Ty}
		}
		return Val{T: app("+", a.T, b.T), Sort: a.Sort, Ty: a.Ty}
	case token.SUB:
		return Val{T: app("-", a.T, b.T), Sort: a.Sort, Ty: a.Ty}
	case token.MUL:
		return Val{T: app("*", a.T, b.T), Sort: a.Sort, Ty: a.Ty}
	case token.QUO:
		if !isNumeral(b.T) {
			return Val{T: app("goquo", a.T, b.T), Sort: a.Sort, Ty: a.Ty}
		}
		return Val{T: ite(app(">=", a.T, "0"), app("div", a.T, b.T), app("-", app("div", app("-", a.T), b.T))), Sort: a.Sort, Ty: a.Ty}
	case token.REM:
		if !isNumeral(b.T) {
			return Val{T: app("gorem", a.T, b.T), Sort: a.Sort, Ty: a.Ty}
		}
		return Val{T: ite(app(">=", a.T, "0"), app("mod", a.T, b.T), app("-", app("mod", app("-", a.T), b.T))), Sort: a.Sort, Ty: a.Ty}
	}
	specFail("unsupported binary operator %v", x.Op)
	return Val{}
}

func hasQuant(t string) bool {
	return strings.Contains(t, "(forall ") || strings.Contains(t, "(exists ")
}

func (fc *FnCtx) binder(env *specEnv, name, sortName string) (string, Val) {
	env.nbind++
	fc.sc.nfresh++
	n := fmt.Sprintf("%s!b%d", sanitize(name), fc.sc.nfresh)
	return n, Val{T: n, Sort: sortName, Ty: goTypeOfSort(sortName)}
}

func (fc *FnCtx) evalCall(env *specEnv, x *ast.CallExpr) Val {
	boolV := func(t string) Val { return Val{T: t, Sort: sortBool, Ty: types.Typ[types.Bool]} }
	fname := ""
	switch f := x.Fun.(type) {
	case *ast.Ident:
		fname = f.Name
	case *ast.SelectorExpr:
		if id, ok := f.X.(*ast.Ident); ok {
			fname = id.Name + "." + f.Sel.Name
		}
	case *ast.ParenExpr:
		// (T)(x) conversions are not needed
	}
	if fname == "" {
		specFail("unsupported call expression")
	}
	arg := func(i int) Val { return fc.evalSpec(env, x.Args[i]) }
	switch fname {
	case "len":
		a := arg(0)
		if a.Ty != nil {
			switch t := a.Ty.Underlying().(type) {
			case *types.Slice:
				return Val{T: app("len", a.T), Sort: sortInt, Ty: types.Typ[types.Int]}
			case *types.Map:
				_, _, l := fc.mapKeys(t)
				raw := app("select", fc.heapGet(env.st, l), a.T)
				// map lengths are never negative (the length heap itself is unconstrained)
				return Val{T: ite(or(eq(a.T, "0"), app("<", raw, "0")), "0", raw), Sort: sortInt, Ty: types.Typ[types.Int]}
			}
		}
		if a.Sort == sortStr {
			return Val{T: app("slen", a.T), Sort: sortInt, Ty: types.Typ[types.Int]}
		}
		if a.Sort == sortSlice {
			return Val{T: app("len", a.T), Sort: sortInt, Ty: types.Typ[types.Int]}
		}
		specFail("len of sort %s", a.Sort)
	case "cap":
		return Val{T: app("cap", arg(0).T), Sort: sortInt, Ty: types.Typ[types.Int]}
	case "old":
		if env.old == nil {
			specFail("old() not available here")
		}
		n := *env
		n.st = env.old
		n.inOld = true
		n.cur = env.st
		return fc.evalSpec(&n, x.Args[0])
	case "now":
		// inside old(...): evaluate the argument in the current state again
		if env.cur == nil {
			return fc.evalSpec(env, x.Args[0])
		}
		n := *env
		n.st = env.cur
		n.inOld = false
		n.cur = nil
		return fc.evalSpec(&n, x.Args[0])
	case "imp":
		return boolV(implies(arg(0).T, arg(1).T))
	case "iff":
		a, b := arg(0).T, arg(1).T
		if hasQuant(a) || hasQuant(b) {
			return boolV(and(implies(a, b), implies(b, a)))
		}
		return boolV(eq(a, b))
	case "ite":
		c := arg(0)
		// a statically decided condition does not evaluate the other branch (it may mention
		// locals that do not exist on this path)
		if c.T == "true" {
			return arg(1)
		}
		if c.T == "false" {
			return arg(2)
		}
		a, b := arg(1), arg(2)
		return Val{T: ite(c.T, a.T, b.T), Sort: a.Sort, Ty: a.Ty}
	case "all", "ex":
		// all(i, lo, hi, body [, trig(...)])
		id, ok := x.Args[0].(*ast.Ident)
		if !ok || len(x.Args) < 4 {
			specFail("%s(i, lo, hi, body)", fname)
		}
		lo, hi := arg(1), arg(2)
		bn, bv := fc.binder(env, id.Name, sortInt)
		n := *env
		n.vars = copyVars(env.vars)
		n.vars[id.Name] = bv
		body := fc.evalSpec(&n, x.Args[3])
		pats := fc.patterns(&n, x.Args[4:])
		rng := and(app("<=", lo.T, bn), app("<", bn, hi.T))
		if fname == "all" {
			return boolV(fmt.Sprintf("(forall ((%s Int)) %s)", bn, withPats(implies(rng, body.T), pats)))
		}
		return boolV(fmt.Sprintf("(exists ((%s Int)) %s)", bn, withPats(and(rng, body.T), pats)))
	case "forall", "exists":
		// forall(Sort(x), Sort(y), body [, trig(...)])
		n := *env
		n.vars = copyVars(env.vars)
		var decls []string
		i := 0
		for ; i < len(x.Args); i++ {
			c, ok := x.Args[i].(*ast.CallExpr)
			if !ok {
				break
			}
			so, ok1 := c.Fun.(*ast.Ident)
			if ok1 && so.Name == "sort" && len(c.Args) == 2 {
				lit, okl := c.Args[0].(*ast.BasicLit)
				id, oki := c.Args[1].(*ast.Ident)
				if !okl || !oki {
					break
				}
				sortTxt, _ := strconv.Unquote(lit.Value)
				sortTxt = fc.ghostSort(sortTxt)
				bn, bv := fc.binder(env, id.Name, sortTxt)
				n.vars[id.Name] = bv
				decls = append(decls, fmt.Sprintf("(%s %s)", bn, sortTxt))
				continue
			}
			if !ok1 || len(c.Args) != 1 {
				break
			}
			id, ok2 := c.Args[0].(*ast.Ident)
			if !ok2 || !isSortName(fc, so.Name) {
				break
			}
			sn := fc.sortByName(env, so.Name)
			bn, bv := fc.binder(env, id.Name, sn.sort)
			bv.Ty = sn.ty
			n.vars[id.Name] = bv
			decls = append(decls, fmt.Sprintf("(%s %s)", bn, sn.sort))
		}
		if i >= len(x.Args) || len(decls) == 0 {
			specFail("%s(Sort(x), ..., body)", fname)
		}
		body := fc.evalSpec(&n, x.Args[i])
		pats := fc.patterns(&n, x.Args[i+1:])
		return boolV(fmt.Sprintf("(%s (%s) %s)", fname, strings.Join(decls, " "), withPats(body.T, pats)))
	case "dom":
		m, k := arg(0), arg(1)
		if m.Ty != nil {
			if mt, ok := m.Ty.Underlying().(*types.Map); ok {
				d, _, _ := fc.mapKeys(mt)
				return boolV(app("select", app("select", fc.heapGet(env.st, d), m.T), k.T))
			}
		}
		specFail("dom() on sort %s", m.Sort)
	case "has":
		m, k := arg(0), arg(1)
		if m.Ty != nil {
			if mt, ok := m.Ty.Underlying().(*types.Map); ok {
				d, _, _ := fc.mapKeys(mt)
				return boolV(and(not(eq(m.T, "0")), app("select", app("select", fc.heapGet(env.st, d), m.T), k.T)))
			}
		}
		if strings.HasPrefix(m.Sort, "(Array ") {
			return boolV(app("select", m.T, k.T))
		}
		specFail("has() on sort %s", m.Sort)
	case "store":
		a := arg(0)
		return Val{T: app("store", a.T, arg(1).T, arg(2).T), Sort: a.Sort}
	case "int", "int64":
		return arg(0)
	case "uint64", "uint":
		return Val{T: app("mod", arg(0).T, pow2(64)), Sort: sortInt, Ty: types.Typ[types.Uint64]}
	case "uint32":
		return Val{T: app("mod", arg(0).T, pow2(32)), Sort: sortInt, Ty: types.Typ[types.Uint32]}
	case "uint16":
		return Val{T: app("mod", arg(0).T, pow2(16)), Sort: sortInt, Ty: types.Typ[types.Uint16]}
	case "uint8", "byte":
		return Val{T: app("mod", arg(0).T, pow2(8)), Sort: sortInt, Ty: types.Typ[types.Uint8]}
	case "string":
		a := arg(0)
		if a.Sort == sortStr {
			return a
		}
		if a.Ty != nil {
			if sl, ok := a.Ty.Underlying().(*types.Slice); ok {
				k := fc.elemKey(sl.Elem())
				return Val{T: app("str_of", app("select", fc.heapGet(env.st, k), app("arr", a.T)), app("off", a.T), app("len", a.T)), Sort: sortStr, Ty: types.Typ[types.String]}
			}
		}
		specFail("string() of sort %s", a.Sort)
	case "tag":
		return Val{T: app("iface_tag", arg(0).T), Sort: sortInt, Ty: types.Typ[types.Int]}
	case "tagof":
		t := fc.resolveType(env, x.Args[0])
		return Val{T: fc.sorts.Tag(t), Sort: sortInt, Ty: types.Typ[types.Int]}
	case "box":
		a := arg(0)
		if a.Ty == nil {
			specFail("box() of a value without Go type")
		}
		return Val{T: fc.sorts.Box(a.Ty, a.T), Sort: sortIface}
	case "unbox":
		t := fc.resolveType(env, x.Args[0])
		return fc.mkVal(fc.sorts.Unbox(t, arg(1).T), t)
	case "ref":
		// ref(p): the pointer as an integer reference
		a := arg(0)
		if a.Addr != nil {
			t, ok := fc.ptrTerm(env.st, a)
			if !ok {
				specFail("ref() of an interior pointer")
			}
			return Val{T: t, Sort: sortInt, Ty: types.Typ[types.Int]}
		}
		return Val{T: a.T, Sort: sortInt, Ty: types.Typ[types.Int]}
	case "cast":
		// cast(P_pkg_Type, x): view an integer reference as a typed pointer
		id, ok := x.Args[0].(*ast.Ident)
		if !ok {
			specFail("cast(Sort, x)")
		}
		ns := fc.sortByName(env, id.Name)
		return Val{T: arg(1).T, Sort: ns.sort, Ty: ns.ty}
	case "elemarr":
		// elemarr(T, a): the content (index -> element) of the array with id a of element type T
		t := fc.resolveType(env, x.Args[0])
		a := arg(1)
		k := fc.elemKey(t)
		return Val{T: app("select", fc.heapGet(env.st, k), a.T), Sort: fmt.Sprintf("(Array Int %s)", fc.sorts.SortOf(t))}
	case "elemat":
		// elemat(T, a, j): element j of the array with id a of element type T (offset 0)
		t := fc.resolveType(env, x.Args[0])
		a, j := arg(1), arg(2)
		k := fc.elemKey(t)
		return fc.mkVal(app(fc.atFn(t), fc.heapGet(env.st, k), a.T, "0", j.T), t)
	case "bytearr":
		// bytearr(a): the content (index -> byte) of the byte array with id a, for frame clauses
		a := arg(0)
		k := fc.elemKey(types.Typ[types.Uint8])
		return Val{T: app("select", fc.heapGet(env.st, k), a.T), Sort: "(Array Int Int)"}
	case "arrid":
		return Val{T: slArr(arg(0).T), Sort: sortInt, Ty: types.Typ[types.Int]}
	case "offof":
		return Val{T: slOff(arg(0).T), Sort: sortInt, Ty: types.Typ[types.Int]}
	case "flt":
		lit, ok := x.Args[0].(*ast.BasicLit)
		if !ok {
			specFail("flt(\"literal\")")
		}
		s, _ := strconv.Unquote(lit.Value)
		return Val{T: fc.floatConst(s), Sort: sortFloat, Ty: types.Typ[types.Float64]}
	case "heldlock":
		return boolV(fc.lockHeld(env.st, arg(0)))
	}
	if m, ok := fc.eng.macros[fname]; ok {
		if len(x.Args) != len(m.Params) {
			specFail("macro %s expects %d arguments", fname, len(m.Params))
		}
		if env.macroDepth > 20 {
			specFail("macro expansion too deep in %s", fname)
		}
		n := *env
		n.vars = copyVars(env.vars)
		n.macroDepth++
		for i, p := range m.Params {
			n.vars[p] = arg(i)
		}
		return fc.evalSpec(&n, m.Body)
	}
	if sf, ok := fc.eng.specFns[fname]; ok {
		if len(x.Args) != len(sf.Args) {
			specFail("spec function %s expects %d arguments, got %d", fname, len(sf.Args), len(x.Args))
		}
		var ts []string
		for i := range x.Args {
			a := arg(i)
			if a.Sort != sf.Args[i] && !(a.Sort == "Nil") {
				specFail("argument %d of %s has sort %s, want %s", i, fname, a.Sort, sf.Args[i])
			}
			ts = append(ts, a.T)
		}
		return Val{T: app(fname, ts...), Sort: sf.Res, Ty: goTypeOfSort(sf.Res)}
	}
	specFail("unknown spec function %s", fname)
	return Val{}
}

type namedSort struct {
	sort string
	ty   types.Type
}

func isSortName(fc *FnCtx, n string) bool {
	switch n {
	case "Int", "Bool", "Str", "Real", "Iface", "Slice", "Ref":
		return true
	}
	return strings.HasPrefix(n, "T_") || strings.HasPrefix(n, "P_")
}

func (fc *FnCtx) sortByName(env *specEnv, n string) namedSort {
	switch n {
	case "Int":
		return namedSort{sortInt, types.Typ[types.Int]}
	case "Ref":
		return namedSort{sortInt, nil}
	case "Bool":
		return namedSort{sortBool, types.Typ[types.Bool]}
	case "Str":
		return namedSort{sortStr, types.Typ[types.String]}
	case "Real":
		return namedSort{"Real", nil}
	case "Iface":
		return namedSort{sortIface, nil}
	case "Slice":
		return namedSort{sortSlice, nil}
	}
	// P_basic: pointer to a predeclared type
	if strings.HasPrefix(n, "P_") && !strings.Contains(n[2:], "_") {
		if o := types.Universe.Lookup(n[2:]); o != nil {
			if tn, ok := o.(*types.TypeName); ok {
				return namedSort{sortInt, types.NewPointer(tn.Type())}
			}
		}
	}
	// P_pkg_Type: pointer to a Go named type
	if strings.HasPrefix(n, "P_") {
		parts := strings.SplitN(n[2:], "_", 2)
		if len(parts) == 2 {
			if t := fc.eng.lookupNamedType(env.pkg, parts[0], parts[1]); t != nil {
				return namedSort{sortInt, types.NewPointer(t)}
			}
		}
	}
	// T_pkg_Type: a Go named type
	if strings.HasPrefix(n, "T_") {
		parts := strings.SplitN(n[2:], "_", 2)
		if len(parts) == 2 {
			if t := fc.eng.lookupNamedType(env.pkg, parts[0], parts[1]); t != nil {
				return namedSort{fc.sorts.SortOf(t), t}
			}
		}
	}
	specFail("unknown sort %s", n)
	return namedSort{}
}

func copyVars(m map[string]Val) map[string]Val {
	n := make(map[string]Val, len(m)+2)
	for k, v := range m {
		n[k] = v
	}
	return n
}

func (fc *FnCtx) patterns(env *specEnv, args []ast.Expr) []string {
	var pats []string
	for _, a := range args {
		c, ok := a.(*ast.CallExpr)
		if !ok {
			specFail("expected trig(...)")
		}
		if id, ok := c.Fun.(*ast.Ident); !ok || id.Name != "trig" {
			specFail("expected trig(...)")
		}
		var ts []string
		for _, t := range c.Args {
			ts = append(ts, fc.evalSpec(env, t).T)
		}
		pats = append(pats, "("+strings.Join(ts, " ")+")")
	}
	return pats
}

func withPats(body string, pats []string) string {
	if len(pats) == 0 {
		return body
	}
	var b strings.Builder
	b.WriteString("(! ")
	b.WriteString(body)
	for _, p := range pats {
		b.WriteString(" :pattern ")
		b.WriteString(p)
	}
	b.WriteString(")")
	return b.String()
}

// ---- lvalues for assigns clauses ----

type lval struct {
	addr  *Addr
	obj   string
	objTy types.Type
}

func (fc *FnCtx) evalLvalue(env *specEnv, e ast.Expr) (res *lval) {
	defer func() {
		if r := recover(); r != nil {
			if se, ok := r.(specError); ok {
				fc.errorf("assigns clause: %s", se.msg)
				res = nil
				return
			}
			panic(r)
		}
	}()
	switch x := e.(type) {
	case *ast.ParenExpr:
		return fc.evalLvalue(env, x.X)
	case *ast.StarExpr:
		p := fc.evalSpec(env, x.X)
		pt, ok := p.Ty.Underlying().(*types.Pointer)
		if !ok {
			specFail("*x in assigns: not a pointer")
		}
		if p.Addr != nil {
			return &lval{addr: p.Addr}
		}
		if _, ok := pt.Elem().Underlying().(*types.Struct); ok {
			return &lval{obj: p.T, objTy: pt.Elem()}
		}
		return &lval{addr: &Addr{Kind: aBox, Elem: pt.Elem(), Ref: p.T, Ty: pt.Elem()}}
	case *ast.SelectorExpr:
		base := fc.evalSpec(env, x.X)
		if base.Ty == nil {
			specFail("assigns target without Go type")
		}
		pt, ok := base.Ty.Underlying().(*types.Pointer)
		if !ok {
			specFail("assigns x.f: x must be a pointer")
		}
		path, ok := findField(pt.Elem(), x.Sel.Name)
		if !ok {
			specFail("no field %s", x.Sel.Name)
		}
		owner := pt.Elem()
		var a *Addr
		if base.Addr != nil {
			a = &Addr{}
			*a = *base.Addr
		} else {
			a = &Addr{Kind: aField, Owner: owner, Field: path[0], Ref: base.T, Ty: owner.Underlying().(*types.Struct).Field(path[0]).Type()}
			path = path[1:]
		}
		cur := a.Ty
		if base.Addr != nil {
			cur = owner
		}
		for _, idx := range path {
			st := cur.Underlying().(*types.Struct)
			a.Path = append(a.Path, pathStep{cur, idx})
			cur = st.Field(idx).Type()
			a.Ty = cur
		}
		return &lval{addr: a}
	case *ast.IndexExpr:
		base := fc.evalSpec(env, x.X)
		idx := fc.evalSpec(env, x.Index)
		sl, ok := base.Ty.Underlying().(*types.Slice)
		if !ok {
			specFail("assigns s[i]: s must be a slice")
		}
		return &lval{addr: &Addr{Kind: aElem, Elem: sl.Elem(), Arr: app("arr", base.T), Idx: app("+", app("off", base.T), idx.T), Ty: sl.Elem()}}
	}
	specFail("unsupported assigns target")
	return nil
}

// frameKeysOfExpr computes heap keys of an assigns target from the callee's signature only.
func (fc *FnCtx) frameKeysOfExpr(con *Contract, a *AssignTarget) (keys []string, ok bool) {
	if con.Sig == nil {
		return nil, false
	}
	mark := len(fc.sc.cmds)
	nerr := len(fc.errs)
	defer func() {
		fc.sc.cmds = fc.sc.cmds[:mark]
		if r := recover(); r != nil {
			keys, ok = nil, false
		}
		if len(fc.errs) > nerr {
			fc.errs = fc.errs[:nerr]
			fc.unsupported = nerr > 0
			keys, ok = nil, false
		}
	}()
	st := &State{pc: "true", locals: map[*ssa.Alloc]string{}, heap: map[string]string{}, alloc: "0"}
	env := &specEnv{fc: fc, st: st, vars: map[string]Val{}, pkg: con.Pkg, con: con}
	var ptypes []types.Type
	if con.RecvIface != nil {
		ptypes = append(ptypes, con.RecvIface)
	} else if r := con.Sig.Recv(); r != nil {
		ptypes = append(ptypes, r.Type())
	}
	for i := 0; i < con.Sig.Params().Len(); i++ {
		ptypes = append(ptypes, con.Sig.Params().At(i).Type())
	}
	for i, n := range con.ParamNames {
		if i < len(ptypes) {
			env.vars[n] = fc.mkVal(fc.sorts.Zero(ptypes[i]), ptypes[i])
		}
	}
	switch a.Kind {
	case "loc":
		lv := fc.evalLvalue(env, a.Expr)
		if lv == nil {
			return nil, false
		}
		if lv.obj != "" {
			return []string{"S|" + fc.eng.typeName(lv.objTy)}, true
		}
		switch lv.addr.Kind {
		case aField:
			return []string{fc.fieldKey(lv.addr.Owner, lv.addr.Field)}, true
		case aBox:
			return []string{fc.boxKey(lv.addr.Elem)}, true
		case aElem:
			return []string{fc.elemKey(lv.addr.Elem)}, true
		case aGlobal:
			return []string{fc.globalKey(lv.addr.Global)}, true
		}
	case "elems":
		v := fc.evalSpec(env, a.Expr)
		if sl, ok := v.Ty.Underlying().(*types.Slice); ok {
			return []string{fc.elemKey(sl.Elem())}, true
		}
	case "map":
		v := fc.evalSpec(env, a.Expr)
		if m, ok := v.Ty.Underlying().(*types.Map); ok {
			d, vl, l := fc.mapKeys(m)
			return []string{d, vl, l}, true
		}
	}
	return nil, false
}
