package main

import (
	"regexp"
	"fmt"
	"go/ast"
	"go/token"
	"go/types"
	"sort"
	"strings"

	"golang.org/x/tools/go/ssa"
)

type FuncResult struct {
	Name        string        `json:"name"`
	Pos         string        `json:"pos"`
	Props       []string      `json:"props,omitempty"`
	Obligations []*Obligation `json:"obligations"`
	Notes       []string      `json:"notes,omitempty"`
	Errors      []string      `json:"errors,omitempty"`
	OutOfSubset bool          `json:"out_of_subset"`
	Callees     []string      `json:"callee_contracts,omitempty"`
	Trusted     []string      `json:"trusted_callees,omitempty"`
	IsLemma     bool          `json:"is_lemma,omitempty"`
	UsedLemmas  []string      `json:"applied_lemmas,omitempty"`
}

func (e *Engine) newFnCtx(fn *ssa.Function, name string, con *Contract) *FnCtx {
	sc := newScript()
	fc := &FnCtx{eng: e, fn: fn, name: name, sc: sc, con: con, regs: map[ssa.Value]Val{}, hv: map[string]*heapVar{},
		kindCount: map[string]int{}, strLits: map[string]string{}, params: map[string]Val{}, curFn: fn}
	fc.sorts = newSorts(sc, e)
	// datatypes that proved lemmas mention must exist in every query
	var ks []string
	for k := range e.lemmaTypes {
		ks = append(ks, k)
	}
	sort.Strings(ks)
	for _, k := range ks {
		fc.sorts.SortOf(e.lemmaTypes[k])
	}
	return fc
}

var cover bool

func (e *Engine) verifyFunction(fn *ssa.Function, con *Contract) *FuncResult {
	name := e.fnName(fn)
	fc := e.newFnCtx(fn, name, con)
	res := &FuncResult{Name: name, Pos: e.pos(fn.Pos())}
	if con != nil {
		res.Props = con.Props
	}
	func() {
		defer func() {
			if r := recover(); r != nil {
				if se, ok := r.(specError); ok {
					fc.errorf("spec error: %s", se.msg)
					return
				}
				panic(r)
			}
		}()
		fc.run()
		fc.checkAnchors(con)
	}()
	res.Obligations = fc.obs
	if con != nil && len(con.Extra["thin"]) > 0 && !fc.eng.lockMode {
		// thin contract: only obligations of the named kinds are claimed for this function; the rest
		// of its body (callee preconditions that need the full functional model, safety of unrelated
		// code) is not under contract and is reported as such
		re, err := regexp.Compile(strings.TrimSpace(con.Extra["thin"][0].Text))
		if err != nil {
			fc.errorf("%s: bad thin pattern: %v", con.Extra["thin"][0].Pos, err)
		} else {
			var keep []*Obligation
			dropped := 0
			for _, ob := range fc.obs {
				if re.MatchString(ob.Kind) || strings.HasPrefix(ob.Kind, "cover") {
					keep = append(keep, ob)
				} else {
					dropped++
				}
			}
			res.Obligations = keep
			fc.note("THIN CONTRACT: only obligations of kinds /%s/ are claimed for this function; %d other obligations of its body were generated and NOT checked", re.String(), dropped)
		}
	}
	for l := range fc.usedLemmas {
		res.UsedLemmas = append(res.UsedLemmas, l)
	}
	sort.Strings(res.UsedLemmas)
	res.Notes = fc.notes
	res.Errors = fc.errs
	res.OutOfSubset = fc.unsupported
	cs := map[string]bool{}
	ts := map[string]bool{}
	for k := range fc.usedContracts {
		c := e.contracts[k]
		if c != nil && c.Trusted {
			ts[k+" ["+c.TrustedWhy+"]"] = true
		} else {
			cs[k] = true
		}
	}
	for k := range cs {
		res.Callees = append(res.Callees, k)
	}
	for k := range ts {
		res.Trusted = append(res.Trusted, k)
	}
	sort.Strings(res.Callees)
	sort.Strings(res.Trusted)
	return res
}

func (fc *FnCtx) run() {
	fn := fc.fn
	fc.usedContracts = map[string]bool{}
	st := &State{pc: "true", locals: map[*ssa.Alloc]string{}, heap: map[string]string{}}
	st.alloc = fc.sc.Fresh("alloc0", "Int")
	fc.assume(st, app("<=", "1", st.alloc))
	var params []Val
	env := &specEnv{fc: fc, st: st, vars: map[string]Val{}}
	if fn.Pkg != nil {
		env.pkg = fn.Pkg.Pkg
	}
	con := fc.con
	for i, p := range fn.Params {
		v := fc.fresh(st, "p."+p.Name(), p.Type())
		params = append(params, v)
		nm := p.Name()
		if con != nil && i < len(con.ParamNames) {
			nm = con.ParamNames[i]
		}
		fc.params[nm] = v
		env.vars[nm] = v
		if i == 0 && fn.Signature.Recv() != nil {
			if _, ok := p.Type().Underlying().(*types.Pointer); ok {
				fc.assume(st, not(eq(v.T, "0")))
			}
		}
	}
	var fvs []Val
	for _, fv := range fn.FreeVars {
		fvs = append(fvs, fc.fresh(st, "fv."+fv.Name(), fv.Type()))
	}
	// package-level invariants (initialised once, never reassigned: any store to a global fails the frame check)
	for _, gi := range fc.eng.globalInvs {
		if fn.Pkg != nil && gi.Pkg == fn.Pkg.Pkg {
			fc.assume(st, fc.evalBool(env, gi.Clause))
			fc.note("assumed package invariant: %s", gi.Clause.Text)
		}
	}
	if con != nil {
		for _, r := range con.Requires {
			fc.assume(st, fc.evalBool(env, r))
		}
		fc.lockEntry(st, con, env)
	}
	fc.entry = st.clone()
	// vacuity guard: the precondition must be satisfiable
	fc.coverPoint(st, "cover.entry", fn.Pos())
	rets := fc.execBody(fn, st, params, fvs, true, con)
	for _, r := range rets {
		// vacuity guard: each return must be reachable under everything assumed on the way
		// (a contradictory callee contract or invariant would make all later obligations trivial)
		fc.coverPoint(r.st, "cover.exit", fn.Pos())
		fc.checkExit(r, env)
	}
}

func (fc *FnCtx) coverPoint(st *State, kind string, pos token.Pos) {
	fc.kindCount[kind]++
	o := &Obligation{Name: fmt.Sprintf("%s/%s#%d", fc.name, kind, fc.kindCount[kind]), Func: fc.name, Kind: kind, Pos: fc.eng.pos(pos),
		script: fc.sc, prefix: fc.sc.Mark(), pc: st.pc, goal: "false", Expect: "sat", GoalTxt: "assumptions up to this point are satisfiable"}
	if fc.con != nil {
		o.Props = fc.con.Props
	}
	fc.obs = append(fc.obs, o)
}

func (fc *FnCtx) checkExit(r retInfo, entryEnv *specEnv) {
	con := fc.con
	st := r.st
	env := &specEnv{fc: fc, st: st, old: fc.entry, vars: copyVars(entryEnv.vars), pkg: entryEnv.pkg, con: con}
	if con != nil {
		for i, rv := range r.results {
			if i < len(con.Results) {
				env.vars[con.Results[i]] = rv
			}
			env.vars[fmt.Sprintf("res%d", i)] = rv
		}
		if len(r.results) == 1 {
			env.vars["result"] = r.results[0]
		}
		fc.pointClausesV(st, "at_exit", "exit", fc.fn.Pos(), env.vars)
		for i, e := range con.Ensures {
			g := fc.evalBool(env, e)
			fc.oblige(st, fmt.Sprintf("post%d", i), g, fc.fn.Pos(), e.Text)
		}
		fc.lockExit(st, con, env)
	}
	fc.checkFrame(st)
}

// checkFrame: everything allocated at entry and not named by the assigns clause is unchanged.
func (fc *FnCtx) checkFrame(st *State) {
	for _, g := range fc.frameGoals(st) {
		fc.oblige(st, "frame", g.goal, fc.fn.Pos(), g.text)
	}
}

type frameGoal struct{ key, goal, text, atForm string }

// frameGoals: one formula per heap variable whose current value differs from the entry value.
func (fc *FnCtx) frameGoals(st *State) (goals []frameGoal) {
	con := fc.con
	if con == nil || fc.entry == nil {
		return // safety sweep: no frame claimed
	}
	if con.Thread || con.WriteSetFrame {
		return
	}
	for _, a := range con.Assigns {
		if a.Kind == "everything" {
			return
		}
	}
	entry := fc.entry
	env := &specEnv{fc: fc, st: entry, vars: copyVars(fc.params), con: con}
	if fc.fn.Pkg != nil {
		env.pkg = fc.fn.Pkg.Pkg
	}
	allowedRefs := map[string][]string{} // heap key -> refs allowed to change
	allowedAll := map[string]bool{}
	for _, a := range con.Assigns {
		switch a.Kind {
		case "except":
			for _, k := range fc.hvOrder {
				if !exceptMatch(a.Name, k) {
					allowedAll[k] = true
				}
			}
		case "ghost":
			allowedAll[fc.ghostKey(a.Name)] = true
		case "heapvar":
			for _, k := range fc.keysMatching(a.Name) {
				allowedAll[k] = true
			}
		case "loc":
			lv := fc.evalLvalue(env, a.Expr)
			if lv == nil {
				continue
			}
			if lv.obj != "" {
				s := lv.objTy.Underlying().(*types.Struct)
				for i := 0; i < s.NumFields(); i++ {
					k := fc.fieldKey(lv.objTy, i)
					allowedRefs[k] = append(allowedRefs[k], lv.obj)
				}
				continue
			}
			switch lv.addr.Kind {
			case aField:
				k := fc.fieldKey(lv.addr.Owner, lv.addr.Field)
				allowedRefs[k] = append(allowedRefs[k], lv.addr.Ref)
			case aBox:
				k := fc.boxKey(lv.addr.Elem)
				allowedRefs[k] = append(allowedRefs[k], lv.addr.Ref)
			case aElem:
				k := fc.elemKey(lv.addr.Elem)
				allowedRefs[k] = append(allowedRefs[k], lv.addr.Arr)
			case aGlobal:
				allowedAll[fc.globalKey(lv.addr.Global)] = true
			}
		case "elems":
			v := fc.evalSpec(env, a.Expr)
			if sl, ok := v.Ty.Underlying().(*types.Slice); ok {
				k := fc.elemKey(sl.Elem())
				allowedRefs[k] = append(allowedRefs[k], app("arr", v.T))
			}
		case "map":
			v := fc.evalSpec(env, a.Expr)
			if m, ok := v.Ty.Underlying().(*types.Map); ok {
				d, vl, l := fc.mapKeys(m)
				for _, k := range []string{d, vl, l} {
					allowedRefs[k] = append(allowedRefs[k], v.T)
				}
			}
		}
	}
	alloc0 := entry.alloc
	for _, k := range fc.hvOrder {
		h := fc.hv[k]
		cur := fc.heapGet(st, k)
		was := fc.heapGet(entry, k)
		if cur == was || allowedAll[k] {
			continue
		}
		switch h.kind {
		case "iter":
			continue
		case "global", "ghost":
			goals = append(goals, frameGoal{key: k, goal: eq(cur, was), text: "assigns: " + k + " unchanged"})
		default:
			conds := []string{app("<=", "0", "r!f"), app("<", "r!f", alloc0)}
			for _, r := range allowedRefs[k] {
				conds = append(conds, not(eq("r!f", r)))
			}
			g := fmt.Sprintf("(forall ((r!f Int)) (=> %s (= (select %s r!f) (select %s r!f))))", and(conds...), cur, was)
			fg := frameGoal{key: k, goal: g, text: "assigns: " + k + " unchanged except " + strings.Join(allowedRefs[k], ",")}
			if h.kind == "elem" && isAtom(cur) && isAtom(was) {
				// the same fact through the element accessor (a consequence of the accessor's definition;
				// only ever assumed together with the select form above)
				at := fc.atFn(h.ty)
				conds2 := []string{app("<=", "0", "a!q"), app("<", "a!q", alloc0)}
				for _, r := range allowedRefs[k] {
					conds2 = append(conds2, not(eq("a!q", r)))
				}
				fg.atForm = fmt.Sprintf("(forall ((a!q Int) (o!q Int) (i!q Int)) (! (=> %s (= (%s %s a!q o!q i!q) (%s %s a!q o!q i!q))) :pattern ((%s %s a!q o!q i!q)) :pattern ((%s %s a!q o!q i!q))))",
					and(conds2...), at, cur, at, was, at, cur, at, was)
			}
			goals = append(goals, fg)
		}
	}
	return
}

// ---- lemmas ----

func (e *Engine) verifyLemma(lm *Lemma) *FuncResult {
	name := "lemma." + lm.Name
	fc := e.newFnCtx(nil, name, &Contract{Props: lm.Props})
	fc.usedContracts = map[string]bool{}
	res := &FuncResult{Name: name, Pos: fmt.Sprintf("%s:%d", lm.File, lm.Line), Props: lm.Props, IsLemma: true}
	st := &State{pc: "true", locals: map[*ssa.Alloc]string{}, heap: map[string]string{}, alloc: "1"}
	env := &specEnv{fc: fc, st: st, vars: map[string]Val{}}
	g := fc.evalBool(env, &Clause{Text: lm.Text, Expr: lm.Expr, Pos: res.Pos})
	lm.Formula = g
	lm.Header = strings.Join(fc.sc.header, "\n")
	lm.HeaderList = append([]string{}, fc.sc.header...)
	// keep binders and body for explicit instantiation (`apply`)
	if decls, body, ok := splitQuant(g); ok && strings.HasPrefix(g, "(forall ") {
		lm.Binders = decls
		lm.Body = stripPattern(body)
		lm.BinderNames = nil
		if ce, ok := lm.Expr.(*ast.CallExpr); ok {
			for _, a := range ce.Args {
				if c, ok := a.(*ast.CallExpr); ok && len(c.Args) >= 1 {
					if id, ok := c.Args[len(c.Args)-1].(*ast.Ident); ok && len(lm.BinderNames) < len(decls) {
						lm.BinderNames = append(lm.BinderNames, id.Name)
						continue
					}
				}
				break
			}
		}
	}
	fc.oblige(st, "lemma", g, token.NoPos, lm.Text)
	res.Obligations = fc.obs
	res.Errors = fc.errs
	res.OutOfSubset = fc.unsupported
	return res
}

// checkAnchors: a before_call/after_call clause whose anchor names no call site of the function (the
// code changed, or the ordinal is wrong) is an error, never a silently skipped ghost update.
func (fc *FnCtx) checkAnchors(con *Contract) {
	if con == nil || fc.fn == nil || len(fc.fn.Blocks) == 0 {
		return
	}
	fc.curFn = fc.fn
	valid := map[string]bool{"exit": true}
	nmu, nsend, nsel := 0, 0, 0
	for _, b := range fc.fn.Blocks {
		for _, in := range b.Instrs {
			switch x := in.(type) {
			case ssa.CallInstruction:
				valid[fc.callAnchor(x.Common(), Val{})] = true
			case *ssa.MapUpdate:
				valid[fmt.Sprintf("mapupdate#%d", nmu)] = true
				nmu++
			case *ssa.Send:
				valid[fmt.Sprintf("send#%d", nsend)] = true
				nsend++
			case *ssa.Select:
				valid[fmt.Sprintf("select#%d", nsel)] = true
				nsel++
			case *ssa.Alloc:
				valid["assign "+x.Comment] = true
			}
		}
	}
	for _, kind := range []string{"before_call", "after_call", "after_assign", "at_exit"} {
		for _, c := range con.Extra[kind] {
			i := strings.Index(c.Text, ":")
			if i < 0 {
				fc.errorf("%s: %s clause without anchor", c.Pos, kind)
				continue
			}
			a := strings.TrimSpace(c.Text[:i])
			ok := false
			for v := range valid {
				if strings.HasPrefix(c.Text, v+":") {
					ok = true
				}
			}
			if !ok {
				fc.errorf("%s: %s anchor %q names no site in %s (run with -v for the anchor table)", c.Pos, kind, a, fc.eng.fnName(fc.fn))
			}
		}
	}
}
