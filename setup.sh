#!/bin/sh
# builds /verif/bin/govc offline from the module cache
set -e
cd "$(dirname "$0")"
. ./env.sh
mkdir -p bin
(cd govc && go build -o ../bin/govc .)
for s in z3 z3-new cvc5; do command -v $s >/dev/null || { echo "solver $s missing"; exit 1; }; done
echo setup ok
