package originium

// D12 (C14): a wal whose last record was torn by a crash (bytes written after the last fsync are
// lost) makes WAL.Read return an error, memtable.recover panic and Open fail - although every
// acknowledged write is in the intact prefix of the log.
// Failed obligations: (*wal.WAL).Read/post0#2, post0#3 (a short tail must not be an error).

import (
	"os"
	"path/filepath"
	"testing"
	"time"

	"github.com/B1NARY-GR0UP/originium/types"
	"github.com/B1NARY-GR0UP/originium/wal"
)

func TestVerifD12TornWalTailIsNotFatal(t *testing.T) {
	dir := t.TempDir()
	l, err := wal.Create(dir)
	if err != nil {
		t.Fatal(err)
	}
	// one acknowledged (synced) record, then a second one that the crash tears
	if err = l.Write(types.Entry{Key: types.KeyWithTs("a", 1), Value: []byte("acknowledged"), Version: 1}); err != nil {
		t.Fatal(err)
	}
	files, _ := filepath.Glob(filepath.Join(dir, "wal-*.log"))
	st, _ := os.Stat(files[0])
	synced := st.Size()
	if err = l.Write(types.Entry{Key: types.KeyWithTs("b", 2), Value: []byte("in flight"), Version: 2}); err != nil {
		t.Fatal(err)
	}
	_ = l.Close()
	st, _ = os.Stat(files[0])
	if err = os.Truncate(files[0], synced+(st.Size()-synced)/2); err != nil {
		t.Fatal(err)
	}
	time.Sleep(1100 * time.Millisecond) // the restart happens in a later second
	var db *DB
	func() {
		defer func() {
			if r := recover(); r != nil {
				t.Fatalf("Open panicked on a log with a torn last record: %v", r)
			}
		}()
		db, err = Open(dir, DefaultConfig)
	}()
	if err != nil {
		t.Fatal(err)
	}
	defer db.Close()
	var got []byte
	var ok bool
	_ = db.View(func(r *Txn) error { got, ok = r.Get("a"); return nil })
	if !ok || string(got) != "acknowledged" {
		t.Fatalf("the acknowledged write is not visible after recovery: ok=%v value=%q", ok, got)
	}
}
