package originium

// Demonstration for defect D6 (C03/C14/C09): compaction removed its input table files before it
// had created, written and synced the merged table. A process that dies in between (here: the
// creation of the output file fails and the engine panics, which is where a kill would strike)
// leaves a directory from which the acknowledged data of the inputs is gone.
// Failed obligation: (*levelManager).compactL0 / compactLN, `assert outDurable(tableBytes)` before
// os.Remove.

import (
	"os"
	"path/filepath"
	"testing"

	"github.com/B1NARY-GR0UP/originium/pkg/logger"
	"github.com/B1NARY-GR0UP/originium/types"
)

func TestVerifD6CompactionKeepsInputsUntilOutputIsDurable(t *testing.T) {
	dir := t.TempDir()
	db := &DB{oracle: newOracle()}
	lm := &levelManager{dir: dir, l0TargetNum: 1, ratio: 10, dataBlockSize: 4096, logger: logger.GetLogger(), db: db}
	if err := lm.flushToL0([]types.Entry{{Key: "k@3", Value: []byte("v3"), Version: 3}}); err != nil {
		t.Fatal(err)
	}
	if err := lm.flushToL0([]types.Entry{{Key: "a@4", Value: []byte("a"), Version: 4}}); err != nil {
		t.Fatal(err)
	}
	// the merged table of the coming L0 -> L1 compaction will be 1-0.db: make its creation fail
	if err := os.Mkdir(filepath.Join(dir, "1-0.db"), 0o755); err != nil {
		t.Fatal(err)
	}
	func() {
		defer func() { _ = recover() }() // the engine panics: the process would die here
		lm.checkAndCompact()
	}()
	_ = os.Remove(filepath.Join(dir, "1-0.db"))
	// what a restart finds in the directory
	db2 := &DB{oracle: newOracle(), dir: dir, logger: logger.GetLogger()}
	db2.config.L0TargetNum, db2.config.LevelRatio, db2.config.DataBlockByteThreshold = 1, 10, 4096
	lm2 := newLevelManager(db2)
	lm2.recover()
	for _, k := range []string{"k@9", "a@9"} {
		e, ok := lm2.searchLowerBound(k)
		if !ok || types.ParseKey(e.Key) != types.ParseKey(k) {
			t.Fatalf("after a crash during compaction the flushed (acknowledged) key %s is gone: got %+v ok=%v", k, e, ok)
		}
	}
}
