package wal

import "testing"

// D9 (C03/C02): CompareVersion compared the nanosecond field of two wal versions as strings; the
// field is not zero-padded, so within one second "900" sorts after "1000" and a log created earlier
// compares as newer. memtable.recover replays only the logs that compare older than the new log:
// such a log is skipped at recovery and the acknowledged commits in it are not visible.
// Failed obligations: wal.CompareVersion/post0 (the two nanosecond branches).
func TestVerifD9CompareVersionOrdersByTime(t *testing.T) {
	older, newer := "20260923101010-900", "20260923101010-1000"
	if c := CompareVersion(older, newer); c >= 0 {
		t.Fatalf("CompareVersion(%q, %q) = %d: the log created 900ns into the second must compare older than the one created 1000ns into it", older, newer, c)
	}
	if c := CompareVersion(newer, older); c <= 0 {
		t.Fatalf("CompareVersion(%q, %q) = %d, want > 0", newer, older, c)
	}
	if c := CompareVersion("20260923101010-9", "20260923101010-123456789"); c >= 0 {
		t.Fatalf("9ns must compare older than 123456789ns, got %d", c)
	}
}
