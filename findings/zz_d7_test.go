package originium

// Demonstration for defect D7 (C12/C01/C15): memtable rotation in rawset was not synchronised with
// readers (DB.search under db.mu.RLock) nor with the flusher (DB.run): db.memtable and the list of
// immutables were written without db.mu. Run with -race: fails before the fix.

import (
	"fmt"
	"sync"
	"testing"
)

func TestVerifD7RotationRace(t *testing.T) {
	cfg := DefaultConfig
	cfg.MemtableByteThreshold = 256 // rotate every few writes
	cfg.ImmutableBuffer = 64
	db, err := Open(t.TempDir(), cfg)
	if err != nil {
		t.Fatal(err)
	}
	var wg sync.WaitGroup
	wg.Add(2)
	go func() {
		defer wg.Done()
		for i := 0; i < 200; i++ {
			_ = db.Update(func(txn *Txn) error { return txn.Set(fmt.Sprintf("k%03d", i%20), []byte("0123456789abcdef0123456789abcdef")) })
		}
	}()
	go func() {
		defer wg.Done()
		for i := 0; i < 2000; i++ {
			_ = db.View(func(txn *Txn) error { txn.Get(fmt.Sprintf("k%03d", i%20)); return nil })
		}
	}()
	wg.Wait()
	db.Close()
}
