#!/bin/sh
# run.sh <test-file> <TestRegexp> : runs a demonstration test from /verif/findings against /repo's
# working tree through a go test overlay (nothing is written to /repo).
set -e
. /verif/env.sh
f=$(realpath "$1")
ov=$(mktemp)
printf '{"Replace": {"/repo/%s": "%s"}}' "$(basename "$f")" "$f" > "$ov"
cd /repo && go test -overlay "$ov" -vet=off -count=1 -timeout 120s -run "$2" . ; rc=$?
rm -f "$ov"
exit $rc
