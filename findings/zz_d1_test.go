package originium

// Demonstration for defect D1 (C10/C01): a versioned lookup key sorts before every stored version
// of its user key, so the index search "last block with StartKey <= key" misses the table.
// Run: go test -overlay (see /verif/findings/README.md). Fails before the fix, passes after.

import (
	"testing"

	"github.com/B1NARY-GR0UP/originium/pkg/logger"
	"github.com/B1NARY-GR0UP/originium/types"
)

func TestVerifD1LookupBeforeFirstEntry(t *testing.T) {
	lm := &levelManager{dir: t.TempDir(), l0TargetNum: 4, ratio: 10, dataBlockSize: 4096, logger: logger.GetLogger()}
	if err := lm.flushToL0([]types.Entry{{Key: "k@5", Value: []byte("v5"), Version: 5}}); err != nil {
		t.Fatal(err)
	}
	e, ok := lm.searchLowerBound("k@7")
	if !ok || e.Key != "k@5" {
		t.Fatalf("lookup of k at ts 7 must find k@5 (the newest version <= 7), got %+v ok=%v", e, ok)
	}
}

func TestVerifD1LookupBetweenBlocks(t *testing.T) {
	// one entry per block: block size 0 bytes
	lm := &levelManager{dir: t.TempDir(), l0TargetNum: 4, ratio: 10, dataBlockSize: 0, logger: logger.GetLogger()}
	kvs := []types.Entry{{Key: "a@9", Value: []byte("a9"), Version: 9}, {Key: "b@5", Value: []byte("b5"), Version: 5}, {Key: "c@5", Value: []byte("c5"), Version: 5}}
	if err := lm.flushToL0(kvs); err != nil {
		t.Fatal(err)
	}
	e, ok := lm.searchLowerBound("b@7")
	if !ok || e.Key != "b@5" {
		t.Fatalf("lookup of b at ts 7 must find b@5, got %+v ok=%v", e, ok)
	}
}
