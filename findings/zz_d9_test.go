package originium

// Engine-level demonstration of D9 (C03): a wal left behind by a crash is skipped by recovery when
// the new wal is created later in the same second but with a nanosecond field that sorts lower as a
// string (here: the old log was created 9ns into the second). The acknowledged write in it is then
// not visible after Open.

import (
	"fmt"
	"os"
	"path/filepath"
	"testing"
	"time"

	"github.com/B1NARY-GR0UP/originium/types"
	"github.com/B1NARY-GR0UP/originium/wal"
)

func TestVerifD9RecoveryReplaysLogOfTheSameSecond(t *testing.T) {
	for attempt := 0; attempt < 20; attempt++ {
		dir := t.TempDir()
		// a log with one acknowledged write, as a killed process leaves it
		l, err := wal.Create(dir)
		if err != nil {
			t.Fatal(err)
		}
		if err = l.Write(types.Entry{Key: types.KeyWithTs("k", 1), Value: []byte("v"), Version: 1}); err != nil {
			t.Fatal(err)
		}
		_ = l.Close()
		files, _ := filepath.Glob(filepath.Join(dir, "wal-*.log"))
		sec := time.Now().Format("20060102150405")
		// wait for a moment that is at least 10ns into the second, then restart in the same second
		for time.Now().Nanosecond() < 100 {
		}
		old := filepath.Join(dir, fmt.Sprintf("wal-%s-9.log", sec))
		if err = os.Rename(files[0], old); err != nil {
			t.Fatal(err)
		}
		db, err := Open(dir, DefaultConfig)
		if err != nil {
			t.Fatal(err)
		}
		sameSecond := time.Now().Format("20060102150405") == sec
		var got []byte
		var ok bool
		_ = db.View(func(r *Txn) error { got, ok = r.Get("k"); return nil })
		db.Close()
		if !sameSecond {
			continue // the restart crossed a second boundary: try again
		}
		if !ok || string(got) != "v" {
			t.Fatalf("the write logged in %s is not visible after recovery (ok=%v value=%q)", filepath.Base(old), ok, got)
		}
		return
	}
	t.Skip("could not restart within one second 20 times")
}
