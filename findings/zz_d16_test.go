package originium

// D16 (C15: "for all ImmutableBuffer/threshold settings"): Config.validate replaces every
// non-positive setting by its default except ImmutableBuffer; a negative value reaches
// make(chan *memtable, n) and Open panics instead of returning a usable store.
// Failed obligation: (*Config).validate/post0.c1 (ImmutableBuffer >= 0 after validation).

import "testing"

func TestVerifD16NegativeImmutableBuffer(t *testing.T) {
	cfg := DefaultConfig
	cfg.ImmutableBuffer = -1
	var db *DB
	var err error
	func() {
		defer func() {
			if r := recover(); r != nil {
				t.Fatalf("Open panicked on ImmutableBuffer = -1: %v", r)
			}
		}()
		db, err = Open(t.TempDir(), cfg)
	}()
	if err != nil {
		return // rejecting the configuration is fine too
	}
	defer db.Close()
	if e := db.Update(func(txn *Txn) error { return txn.Set("k", []byte("v")) }); e != nil {
		t.Fatal(e)
	}
}
