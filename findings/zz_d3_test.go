package originium

// Demonstration for defect D3 (C09/C01): compaction merged its inputs with kway.Merge, which drops
// tombstones. A deletion marker is a version of its key: dropping it lets an older value that lives
// in a deeper (or not compacted) table reappear.

import (
	"testing"

	"github.com/B1NARY-GR0UP/originium/pkg/logger"
	"github.com/B1NARY-GR0UP/originium/types"
)

func TestVerifD3TombstoneSurvivesCompaction(t *testing.T) {
	db := &DB{oracle: newOracle()}
	lm := &levelManager{dir: t.TempDir(), l0TargetNum: 1, ratio: 10, dataBlockSize: 4096, logger: logger.GetLogger(), db: db}
	// k@3 goes down to level 1
	if err := lm.flushToL0([]types.Entry{{Key: "k@3", Value: []byte("v3"), Version: 3}}); err != nil {
		t.Fatal(err)
	}
	if err := lm.flushToL0([]types.Entry{{Key: "a@4", Value: []byte("a"), Version: 4}}); err != nil {
		t.Fatal(err)
	}
	lm.checkAndCompact() // L1: [k@3]   L0: [a@4]
	// the deletion of k at version 5 (same table also holds m@5)
	if err := lm.flushToL0([]types.Entry{{Key: "k@5", Value: []byte{}, Tombstone: true, Version: 5}, {Key: "m@5", Value: []byte("m"), Version: 5}}); err != nil {
		t.Fatal(err)
	}
	lm.checkAndCompact() // moves a@4 down; L0: [k@5 tombstone, m@5]
	if err := lm.flushToL0([]types.Entry{{Key: "z@6", Value: []byte("z"), Version: 6}}); err != nil {
		t.Fatal(err)
	}
	before, okBefore := lm.searchLowerBound("k@9")
	lm.checkAndCompact() // compacts the table with the tombstone
	after, okAfter := lm.searchLowerBound("k@9")
	if !okBefore || !before.Tombstone {
		t.Fatalf("setup: expected the tombstone k@5 before compaction, got %+v ok=%v", before, okBefore)
	}
	if !okAfter || !after.Tombstone || after.Key != "k@5" {
		t.Fatalf("after compaction the lookup of k at ts 9 must still find the deletion k@5, got %+v ok=%v", after, okAfter)
	}
}
