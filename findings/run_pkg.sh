#!/bin/sh
# run_pkg.sh <pkg-dir-in-repo> <test-file> <TestRegexp> [-race]: overlay a demonstration test into a sub-package
set -e
. /verif/env.sh
pkg="$1"; f=$(realpath "$2"); re="$3"; shift 3
ov=$(mktemp)
printf '{"Replace": {"/repo/%s/%s": "%s"}}' "$pkg" "$(basename "$f")" "$f" > "$ov"
cd /repo && go test "$@" -overlay "$ov" -vet=off -count=1 -timeout 300s -run "$re" "./$pkg" ; rc=$?
rm -f "$ov"
exit $rc
