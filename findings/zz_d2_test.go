package originium

// Demonstration for defect D2 (C10/C01): searchLowerBound returned the first lower bound of any
// table, even of another user key (masking later tables), and walked L0 oldest first so an older
// version won over a newer one.

import (
	"testing"

	"github.com/B1NARY-GR0UP/originium/pkg/logger"
	"github.com/B1NARY-GR0UP/originium/types"
)

func TestVerifD2OlderTableWins(t *testing.T) {
	lm := &levelManager{dir: t.TempDir(), l0TargetNum: 4, ratio: 10, dataBlockSize: 4096, logger: logger.GetLogger()}
	if err := lm.flushToL0([]types.Entry{{Key: "k@5", Value: []byte("old"), Version: 5}}); err != nil {
		t.Fatal(err)
	}
	if err := lm.flushToL0([]types.Entry{{Key: "k@8", Value: []byte("new"), Version: 8}}); err != nil {
		t.Fatal(err)
	}
	e, ok := lm.searchLowerBound("k@9")
	if !ok || e.Key != "k@8" {
		t.Fatalf("lookup of k at ts 9 must find k@8, got %+v ok=%v", e, ok)
	}
}

func TestVerifD2OtherKeyMasks(t *testing.T) {
	lm := &levelManager{dir: t.TempDir(), l0TargetNum: 4, ratio: 10, dataBlockSize: 4096, logger: logger.GetLogger()}
	// first table: only keys around k (bloom filters can say "maybe" for k: use k itself with a newer version)
	if err := lm.flushToL0([]types.Entry{{Key: "k@9", Value: []byte("too new"), Version: 9}, {Key: "m@1", Value: []byte("m"), Version: 1}}); err != nil {
		t.Fatal(err)
	}
	if err := lm.flushToL0([]types.Entry{{Key: "k@5", Value: []byte("v5"), Version: 5}}); err != nil {
		t.Fatal(err)
	}
	e, ok := lm.searchLowerBound("k@7")
	if !ok || e.Key != "k@5" {
		t.Fatalf("lookup of k at ts 7 must find k@5 in the second table, got %+v ok=%v", e, ok)
	}
}
