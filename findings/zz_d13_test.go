package originium

// Demonstration for defect D13 (C04): Commit applies its pending writes one rawset at a time, each a
// separate wal append + fsync, and the wal has no transaction begin/end record. A process that dies
// between two of them leaves a directory from which recovery restores a part of the transaction.
// The test performs exactly the steps Commit performs for a two-key transaction, copies the
// directory between the first and the second rawset (what a kill at that instant leaves behind,
// process-crash model: every completed file operation persists) and opens the copy.
// Failed obligation: (*Txn).Commit/assert#1 (`CommitWrites == 0` before a rawset).

import (
	"io"
	"os"
	"path/filepath"
	"testing"

	"github.com/B1NARY-GR0UP/originium/types"
)

func copyDir(t *testing.T, from, to string) {
	ents, err := os.ReadDir(from)
	if err != nil {
		t.Fatal(err)
	}
	for _, e := range ents {
		if e.IsDir() {
			continue
		}
		src, err := os.Open(filepath.Join(from, e.Name()))
		if err != nil {
			t.Fatal(err)
		}
		dst, err := os.Create(filepath.Join(to, e.Name()))
		if err != nil {
			t.Fatal(err)
		}
		if _, err = io.Copy(dst, src); err != nil {
			t.Fatal(err)
		}
		src.Close()
		dst.Close()
	}
}

func TestVerifD13CrashInsideCommitIsAllOrNothing(t *testing.T) {
	dir, snap := t.TempDir(), t.TempDir()
	db, err := Open(dir, DefaultConfig)
	if err != nil {
		t.Fatal(err)
	}
	defer db.Close()
	// what Commit does for the transaction {a: 1, b: 1}
	txn := db.Begin(true)
	_ = txn.Set("a", []byte("1"))
	_ = txn.Set("b", []byte("1"))
	orc := db.oracle
	orc.writeLock.Lock()
	commitTs, conflict := orc.newCommitTs(txn)
	if conflict {
		t.Fatal("unexpected conflict")
	}
	db.rawset(types.Entry{Key: types.KeyWithTs("a", commitTs), Value: []byte("1"), Version: int64(commitTs)})
	copyDir(t, dir, snap) // the process is killed here
	db.rawset(types.Entry{Key: types.KeyWithTs("b", commitTs), Value: []byte("1"), Version: int64(commitTs)})
	orc.doneCommit(commitTs)
	orc.writeLock.Unlock()

	db2, err := Open(snap, DefaultConfig)
	if err != nil {
		t.Fatal(err)
	}
	defer db2.Close()
	var hasA, hasB bool
	_ = db2.View(func(r *Txn) error {
		_, hasA = r.Get("a")
		_, hasB = r.Get("b")
		return nil
	})
	if hasA != hasB {
		t.Fatalf("after the crash the transaction {a, b} is visible in part: a=%v b=%v", hasA, hasB)
	}
}
