package originium

// D12, table part (C14/C03): a crash during flushToL0 - after the table file was created, before it
// was completely written and synced - leaves an empty or partial "<level>-<idx>.db". The wal of the
// memtable being flushed is still there (it is deleted only after the flush returned), so nothing is
// lost; but levelManager.recover panics on the file and Open fails until it is removed by hand.
// Failed obligations: (*levelManager).recover/assert#1..#3 (no Panicf because of an unreadable footer).

import (
	"os"
	"path/filepath"
	"testing"
	"time"
)

func TestVerifD12PartialTableFileIsNotFatal(t *testing.T) {
	for _, size := range []int{0, 17} {
		dir := t.TempDir()
		db, err := Open(dir, DefaultConfig)
		if err != nil {
			t.Fatal(err)
		}
		if err = db.Update(func(txn *Txn) error { return txn.Set("a", []byte("acknowledged")) }); err != nil {
			t.Fatal(err)
		}
		// the process is killed here: the write is in the wal only. A flush that had just started left
		// an incomplete table file behind.
		snap := t.TempDir()
		copyDirD12(t, dir, snap)
		db.Close()
		if err = os.WriteFile(filepath.Join(snap, "0-0.db"), make([]byte, size), 0o600); err != nil {
			t.Fatal(err)
		}
		time.Sleep(1100 * time.Millisecond)
		var db2 *DB
		func() {
			defer func() {
				if r := recover(); r != nil {
					t.Fatalf("Open panicked on a directory with a %d-byte table file: %v", size, r)
				}
			}()
			db2, err = Open(snap, DefaultConfig)
		}()
		if err != nil {
			t.Fatal(err)
		}
		var got []byte
		var ok bool
		_ = db2.View(func(r *Txn) error { got, ok = r.Get("a"); return nil })
		db2.Close()
		if !ok || string(got) != "acknowledged" {
			t.Fatalf("the acknowledged write is not visible after recovery: ok=%v value=%q", ok, got)
		}
	}
}

func copyDirD12(t *testing.T, from, to string) {
	ents, err := os.ReadDir(from)
	if err != nil {
		t.Fatal(err)
	}
	for _, e := range ents {
		if e.IsDir() {
			continue
		}
		b, err := os.ReadFile(filepath.Join(from, e.Name()))
		if err != nil {
			t.Fatal(err)
		}
		if err = os.WriteFile(filepath.Join(to, e.Name()), b, 0o600); err != nil {
			t.Fatal(err)
		}
	}
}
