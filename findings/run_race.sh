#!/bin/sh
# like run.sh but with the race detector
set -e
. /verif/env.sh
f=$(realpath "$1")
ov=$(mktemp)
printf '{"Replace": {"/repo/%s": "%s"}}' "$(basename "$f")" "$f" > "$ov"
cd /repo && go test -race -overlay "$ov" -vet=off -count=1 -timeout 300s -run "$2" . ; rc=$?
rm -f "$ov"
exit $rc
