package watermark

import (
	"testing"
	"time"
)

// D15 (C13, catch-up clause): a Done(t) consumed before its Begin(t) is popped at once and its
// negative balance forgotten; the later Begin(t) then counts as unfinished for ever although index t
// has been begun once and finished once. Failed obligation:
// (*watermark.WaterMark).process/loop1.inv3.preserved.c1 (exact begun-minus-finished books).
func TestVerifD15DoneBeforeBegin(t *testing.T) {
	w := New()
	defer w.Stop()
	w.Done(5)
	w.Begin(5)
	w.Begin(6)
	w.Done(6)
	deadline := time.Now().Add(2 * time.Second)
	for time.Now().Before(deadline) && w.DoneUntil() < 6 {
		time.Sleep(5 * time.Millisecond)
	}
	if got := w.DoneUntil(); got < 6 {
		t.Fatalf("every begun index up to 6 has been finished (5: one Begin, one Done; 6: one Begin, one Done) but DoneUntil = %d", got)
	}
}
