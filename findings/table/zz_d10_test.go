package table

// Demonstration for defect D10 (C11/C12): the encoders return buf.Bytes() of a pooled buffer that
// a deferred Pool.Put hands back to the pool, so the returned bytes alias memory the next user of
// the pool overwrites. Sequential, deterministic: a second Encode changes the first result.

import (
	"bytes"
	"testing"

	"github.com/B1NARY-GR0UP/originium/types"
)

func TestVerifD10EncodedBytesStayIntact(t *testing.T) {
	f1 := Footer{MetaBlock: BlockHandle{1, 2}, IndexBlock: BlockHandle{3, 4}, Magic: _magic}
	b1, err := f1.Encode()
	if err != nil {
		t.Fatal(err)
	}
	snapshot := append([]byte(nil), b1...)
	// other users of the pool
	for i := 0; i < 8; i++ {
		f2 := Footer{MetaBlock: BlockHandle{uint64(100 + i), 200}, IndexBlock: BlockHandle{300, 400}, Magic: _magic}
		if _, err := f2.Encode(); err != nil {
			t.Fatal(err)
		}
		d := Data{Entries: []types.Entry{{Key: "some-key@1", Value: bytes.Repeat([]byte{byte(i)}, 64)}}}
		if _, err := d.Encode(); err != nil {
			t.Fatal(err)
		}
	}
	if !bytes.Equal(b1, snapshot) {
		t.Fatalf("the bytes returned by the first Encode changed after later encodes:\n was %v\n now %v", snapshot, b1)
	}
	var back Footer
	if err := back.Decode(b1); err != nil || back != f1 {
		t.Fatalf("decoding the first result no longer gives the footer back: %+v err=%v", back, err)
	}
}
