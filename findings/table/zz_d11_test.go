package table

// Demonstration for defect D11 (C11): the data and index blocks store key/value lengths in 16-bit
// fields. A value (or key) of 65536 bytes or more is written with a truncated length and cannot be
// decoded: Decode fails, panics or returns different content.

import (
	"bytes"
	"testing"

	"github.com/B1NARY-GR0UP/originium/types"
)

func TestVerifD11LargeValueRoundTrip(t *testing.T) {
	big := bytes.Repeat([]byte{7}, 65536+10)
	d := Data{Entries: []types.Entry{{Key: "k@1", Value: big, Version: 1}, {Key: "l@1", Value: []byte("x"), Version: 1}}}
	enc, err := d.Encode()
	if err != nil {
		t.Fatalf("encode: %v", err)
	}
	var back Data
	func() {
		defer func() {
			if r := recover(); r != nil {
				t.Fatalf("decode of an encoded block panicked: %v", r)
			}
		}()
		if err := back.Decode(enc); err != nil {
			t.Fatalf("decode of an encoded block failed: %v", err)
		}
	}()
	if len(back.Entries) != 2 || !bytes.Equal(back.Entries[0].Value, big) || back.Entries[1].Key != "l@1" {
		t.Fatalf("round trip changed the content: %d entries, first value %d bytes", len(back.Entries), len(back.Entries[0].Value))
	}
}
